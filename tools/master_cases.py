#!/venv/bin/python
"""Correspondence cases for coq/theories/Model/Master.v (the directory area of a plain ISO9660 image).

A case is an edit HISTORY (add_directory / add_fp / rm_file / rm_directory / intermediate write_fp on
`iso.new(interchange_level=3)`).
`render(case)` replays it on the real pycdlib (/repo) with time.time() pinned (every record then carries the same
7-byte date, which is read back from the root record of the PVD and handed to the model), takes the TREE from the
library's object graph just before the write (names, file lengths, directory data_lengths -- no extents), masters the
image into memory (`iso.write_fp(io.BytesIO())`), finds the root record at byte 156 of sector 16 and cuts out the
blocks of every directory extent with a tiny parser of its own (breadth first, following extent/length fields of the
records whose directory flag is set, skipping the first two records of each directory).  The Coq term is

    (tree, date, (root_extent, root_length), [(extent, run-length coded bytes of the directory's blocks); ...])

of type Master.ms_case; `Master.bad_master_cases 0 cases` lists the cases where `master` does not produce exactly
these bytes, where the independent reader `read` run on the REAL bytes does not return `view tree`, where the root
pointer differs, or where Account.layout disagrees with the extents used.

    cases(seed, n) -> n histories (boundary ones first, then random ones drawn from `seed`)
    render(case)   -> Coq term

harness use (like harness/props/rrplaceleaf.py):
    common.coq_bad_cases('master', ['From PV.Model Require Import Master.'], [], 'ms_case',
                         [render(c) for c in cases(seed, n)], 'bad_master_cases 0', shard=60)

usage: /venv/bin/python /verif/tools/master_cases.py SEED N [OUTDIR]   (writes shards of <= 60 cases, S<k>.v;
       check each with  cd /verif/coq && coqc -q -Q theories PV OUTDIR/S<k>.v  -- it must print `= []`)
"""
import io
import os
import random
import struct
import sys
import time

sys.path.insert(0, os.environ.get('VERIF_REPO', '/repo'))
import pycdlib  # noqa: E402

BLOCK = 2048
CLOCK = 1700000000.0


# ---------------------------------------------------------------------------------------- histories

B36 = '0123456789ABCDEFGHIJKLMNOPQRSTUVWXYZ'


def b36(i, width):
    out = ''
    for _ in range(width):
        out = B36[i % 36] + out
        i //= 36
    return out


def fname(i, ln):
    """A level-3 file identifier of exactly `ln` bytes; 'FFF000123.;1' style from 9 bytes on."""
    if ln >= 9:
        return 'F' * (ln - 9) + '%06d' % (i % 1000000) + '.;1'
    return b36(i, ln)


def dname(i, ln):
    if ln <= 4:
        return b36(i, ln)
    return 'D' * (ln - 4) + b36(i, 4)


def chain_path(depth):
    p = ''
    for d in range(depth):
        p = p + '/' + dname(d, 1 + d % 5)
    return p


def h_chain(depth, files_each):
    ops, p = [], ''
    for d in range(depth):
        p = p + '/' + dname(d, 1 + d % 5)
        ops.append(('dir', p))
        for k in range(files_each if d + 2 <= 7 else 0):
            ops.append(('file', p + '/' + fname(k, 5 + k), [0, 1, 2048, 2049][k % 4]))
    return ops


def h_boundary(nrec, ln, sub=True, where='/B'):
    """`nrec` files whose records are 33+ln(+1) bytes in one directory (below the root when sub)."""
    ops = []
    if sub:
        ops.append(('dir', where))
    base = where if sub else ''
    for k in range(nrec):
        ops.append(('file', base + '/' + fname(k, ln), [0, 3, 2048][k % 3] if k < 6 else 0))
    if sub:
        ops.append(('dir', where + '/SUB'))
        ops.append(('file', where + '/SUB/X.;1', 5))
    return ops


def h_names():
    """names of every length 1..30, even and odd, directories and files (from 9 bytes on with '.;1')."""
    ops = [('dir', '/N')]
    for ln in range(1, 31):
        ops.append(('dir', '/N/' + dname(ln, ln)))
    for ln in range(1, 31):
        ops.append(('file', '/N/' + fname(ln + 100, ln), ln % 3))
    for ln in (1, 2, 7, 8, 30):
        ops.append(('file', '/N/' + dname(ln, ln) + '/' + fname(1, 12), 4097))
    return ops


def h_shrink(n_add, n_rm, readd):
    """grow a directory over block boundaries, remove records (data_length keeps a spare block), re-add some"""
    ops = [('dir', '/S'), ('dir', '/S/KEEP'), ('file', '/S/KEEP/K.;1', 1)]
    names = ['/S/' + fname(k, 29) for k in range(n_add)]
    for nm in names:
        ops.append(('file', nm, 2))
    for nm in names[:n_rm]:
        ops.append(('rmfile', nm))
    for nm in names[:readd]:
        ops.append(('file', nm, 2049))
    return ops


def h_root_big(n):
    return [('file', '/' + fname(k, 30), k % 2) for k in range(n)] + [('dir', '/Z'), ('dir', '/Z/Y'), ('file', '/Z/Y/W.;1', 9)]


def h_random(rng, nops):
    dirs, files, ops = [''], [], []
    long_dir = rng.random() < 0.4
    for _ in range(nops):
        r = rng.random()
        if r < 0.30 and len(dirs) < 25:
            parent = rng.choice(dirs)
            if parent.count('/') >= 7:
                continue
            nm = parent + '/' + dname(rng.randrange(10000), rng.choice([1, 2, 3, 5, 8, 13, 30]))
            if nm not in dirs:
                dirs.append(nm)
                ops.append(('dir', nm))
        elif r < 0.80:
            parent = rng.choice(dirs[-3:] if long_dir and rng.random() < 0.6 else dirs)
            if parent.count('/') >= 7:
                continue
            nm = parent + '/' + fname(rng.randrange(1000000), rng.choice([9, 10, 12, 13, 20, 29, 30]))
            if nm not in files:
                files.append(nm)
                ops.append(('file', nm, rng.choice([0, 0, 1, 7, 2047, 2048, 2049, 4096, 5000])))
        elif r < 0.93 and files:
            nm = rng.choice(files)
            files.remove(nm)
            ops.append(('rmfile', nm))
        elif r < 0.95:
            ops.append(('write',))
        elif len(dirs) > 1:
            d = rng.choice(dirs[1:])
            if not any(x.startswith(d + '/') for x in dirs + files):
                dirs.remove(d)
                ops.append(('rmdir', d))
    return ops


def boundary_cases():
    cs = []
    cs.append(('empty', []))
    cs.append(('chain7', h_chain(7, 2)))
    cs.append(('chain7b', h_chain(7, 0) + [('file', chain_path(6) + '/DEEP.;1', 2049)]))
    cs.append(('names', h_names()))
    # 44-byte records ('F0000nn.;1' style, 11 bytes): 45 fill the first block exactly (68 + 45*44 = 2048),
    # 46 more fit the second (2024 of 2048), 46 the third
    for nrec in (44, 45, 46, 90, 91, 92, 136, 137, 138):
        cs.append(('bound44_%d' % nrec, h_boundary(nrec, 11)))
    # 46-byte records (12 bytes + pad): (2048-68)/46 = 43.04 -> 43 fit, then 44 per block
    for nrec in (42, 43, 44, 86, 87, 88):
        cs.append(('bound46_%d' % nrec, h_boundary(nrec, 12)))
    # +2 records of the SUB directory shift the boundary inside /B: also the root itself
    for nrec in (43, 44, 45, 46, 47):
        cs.append(('rootbound_%d' % nrec, h_boundary(nrec, 11, sub=False)))
    cs.append(('rootbig', h_root_big(70)))
    for (a, b, c) in ((40, 0, 0), (40, 10, 0), (40, 39, 0), (40, 40, 0), (70, 60, 5), (70, 35, 35), (100, 99, 1)):
        cs.append(('shrink_%d_%d_%d' % (a, b, c), h_shrink(a, b, c)))
    cs.append(('two_big', h_boundary(50, 11, where='/B') + h_boundary(95, 12, where='/C')))
    # the path table (10 + 216 per 207-byte directory name) crosses 4096 bytes at the 19th directory: the first
    # directory extent moves from 23 to 27; removing directories brings it back
    for nd, nrm in ((18, 0), (19, 0), (20, 0), (20, 1), (20, 2), (20, 5)):
        ops = [('dir', '/' + dname(k, 207)) for k in range(nd)]
        ops += [('file', '/' + dname(3, 207) + '/' + fname(1, 221), 1), ('file', '/' + fname(2, 220), 2049)]
        ops += [('rmdir', '/' + dname(nd - 1 - k, 207)) for k in range(nrm)]
        cs.append(('ptr_%d_%d' % (nd, nrm), ops))
    # remove a whole sub-tree and build it again, differently
    ops = [('dir', '/A'), ('dir', '/A/B'), ('file', '/A/B/' + fname(1, 12), 5), ('file', '/A/' + fname(2, 13), 2048),
           ('rmfile', '/A/B/' + fname(1, 12)), ('rmdir', '/A/B'), ('rmfile', '/A/' + fname(2, 13)), ('rmdir', '/A'),
           ('dir', '/A'), ('file', '/A/' + fname(3, 9), 0), ('dir', '/A/C'), ('dir', '/A/C/B'),
           ('file', '/A/C/B/' + fname(1, 12), 4097)]
    cs.append(('rebuild', ops))
    cs.append(('rewrite', h_boundary(45, 11) + [('write',), ('file', '/B/' + fname(77, 11), 1), ('write',),
                                                ('rmfile', '/B/' + fname(0, 11)), ('dir', '/B/SUB/T')]))
    return cs


def cases(seed, n):
    cs = boundary_cases()[:n]
    rng = random.Random(seed)
    k = 0
    while len(cs) < n:
        cs.append(('rand_%d_%d' % (seed, k), h_random(rng, rng.choice([8, 20, 40, 60, 90]))))
        k += 1
    return cs


# ---------------------------------------------------------------------------------------- run on pycdlib

def build(ops):
    saved = time.time
    time.time = lambda: CLOCK
    try:
        iso = pycdlib.PyCdlib()
        iso.new(interchange_level=3)
        for op in ops:
            if op[0] == 'dir':
                iso.add_directory(op[1])
            elif op[0] == 'file':
                iso.add_fp(io.BytesIO(b'\x5a' * op[2]), op[2], op[1])
            elif op[0] == 'rmfile':
                iso.rm_file(op[1])
            elif op[0] == 'rmdir':
                iso.rm_directory(op[1])
            else:                               # ('write',): an intermediate mastering must not change the state
                iso.write_fp(io.BytesIO())
        tree = tree_of(iso.pvd.root_directory_record())
        out = io.BytesIO()
        iso.write_fp(out)
        iso.close()
    finally:
        time.time = saved
    return tree, out.getvalue()


def tree_of(rec):
    """the object graph: ('D', ident, data_length, kids) | ('F', ident, length)"""
    if rec.is_dir():
        return ('D', rec.file_ident, rec.data_length, [tree_of(c) for c in rec.children[2:]])
    return ('F', rec.file_ident, rec.inode.get_data_length() if rec.inode is not None else rec.data_length)


def cut_dirs(img):
    """[(extent, bytes)] of every directory, breadth first from the PVD root record; own parser"""
    root = img[16 * BLOCK + 156: 16 * BLOCK + 190]
    rext, rlen = struct.unpack_from('<I', root, 2)[0], struct.unpack_from('<I', root, 10)[0]
    date = root[18:25]
    queue, res = [(rext, rlen)], []
    while queue:
        ext, ln = queue.pop(0)
        nblk = -(-ln // BLOCK)
        data = img[ext * BLOCK:(ext + nblk) * BLOCK]
        res.append((ext, data))
        off, k = 0, 0
        while off < ln:
            l = data[off]
            if l == 0:
                off = (off // BLOCK + 1) * BLOCK
                continue
            if k >= 2 and data[off + 25] & 2:
                queue.append((struct.unpack_from('<I', data, off + 2)[0], struct.unpack_from('<I', data, off + 10)[0]))
            off += l
            k += 1
    return (rext, rlen), date, res


# ---------------------------------------------------------------------------------------- Coq terms

def zl(b):
    return '[' + '; '.join(str(x) for x in b) + ']'


def coq_tree(t):
    if t[0] == 'F':
        return 'File %s %d' % (zl(t[1]), t[2])
    return 'Dir %s %d [%s]' % (zl(t[1]), t[2], '; '.join(coq_tree(k) for k in t[3]))


def rle(data):
    """[(zeros, literal)]: runs of >= 6 zero bytes are counted, everything else is literal"""
    segs, i, n = [], 0, len(data)
    while i < n:
        z = i
        while z < n and data[z] == 0:
            z += 1
        zeros = z - i
        j = z
        while j < n:
            if data[j] == 0:
                e = j
                while e < n and data[e] == 0 and e - j < 6:
                    e += 1
                if e - j >= 6 or e == n:
                    break
                j = e
            else:
                j += 1
        segs.append((zeros, data[z:j]))
        i = j
    return segs


def render(case):
    tree, img = build(case[1])
    (rext, rlen), date, dirs = cut_dirs(img)
    exp = '; '.join('(%d, [%s])' % (e, '; '.join('(%d, %s)' % (z, zl(lit)) for z, lit in rle(d))) for e, d in dirs)
    return '(%s, %s, (%d, %d), [%s])' % (coq_tree(tree), zl(date), rext, rlen, exp)


HEADER = ('From Coq Require Import ZArith List Bool.\nImport ListNotations.\nFrom PV.Model Require Import Master.\n'
          'Local Open Scope Z_scope.\n')


def main():
    seed, n = int(sys.argv[1]), int(sys.argv[2])
    outdir = sys.argv[3] if len(sys.argv) > 3 else '/var/tmp/master_cases'
    os.makedirs(outdir, exist_ok=True)
    cs = cases(seed, n)
    shard, k = 60, 0
    for i in range(0, len(cs), shard):
        texts = [render(c) for c in cs[i:i + shard]]
        with open(os.path.join(outdir, 'S%d.v' % k), 'w') as f:
            f.write(HEADER)
            f.write('Definition cases : list ms_case := [\n%s].\n' % ';\n'.join(texts))
            f.write('Eval vm_compute in bad_master_cases 0 cases.\n')
        k += 1
    print(len(cs), 'cases', k, 'shards in', outdir)


if __name__ == '__main__':
    main()
