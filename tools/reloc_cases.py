#!/venv/bin/python
"""Differential test of coq/theories/Model/Reloc.v (Rock Ridge deep-directory relocation: RR_MOVED, CL / PL /
RE) against the real pycdlib.

Edit histories (add_directory / rm_directory / add_fp / add_symlink / rm_file, valid and invalid, with
directory chains of depth 7..17, and "reopen" = write_fp followed by open_fp of the written bytes, after
which the history goes on with the parsed object) are run on
`PyCdlib.new(interchange_level=3, rock_ridge=VERSION)`.  After EVERY operation the tool records

    accepted?, does write_fp succeed?, and -- after a forced _reshuffle_extents() -- the PHYSICAL tree in
    breadth-first order: for every directory its path of identifiers, its extent, its number of blocks and
    its records (identifier, Rock Ridge name, flags 1 directory + 2 CL + 4 RE + 8 PL + 16 symlink, PX link
    count, extent [0 for non-directories], CL block number, PL block number [-1 when absent]).
    (The Rock Ridge name of '.' and '..' is recorded as empty: rr.name() of a PARSED '.' record says b'.'.)

At the end of a history whose image can be written, the bytes are decoded by the tiny SUSP reader in this
file (it knows nothing of pycdlib: follows CL, skips RE, hides the root's RR_MOVED, st_nlink from '.') and
the logical tree it finds is recorded.  Reloc.bad_reloc_cases evaluates the model on the same operations
and judges all of it.

API (deterministic from the seed):  cases(seed, n) -> list of case dicts;  render(case) -> Coq term of type
Reloc.case.   Command line:

    /venv/bin/python /verif/tools/reloc_cases.py OUTDIR SEED N [SHARD]

writes OUTDIR/reloc_<seed>_<k>.v, SHARD (default 20) histories each, every file ending in
`Eval vm_compute in bad_reloc_cases 0 cases.`  (must print `= []`); check with
    cd /verif/coq && coqc -q -Q theories PV -w -notation-overridden OUTDIR/reloc_<seed>_<k>.v
The library is imported from $VERIF_REPO (default /repo).
"""
import collections
import io
import os
import random
import struct
import sys

sys.path.insert(0, os.environ.get('VERIF_REPO', '/repo'))   # the tree under test
import pycdlib  # noqa: E402

BLOCK = 2048


def cdiv(a, b):
    return -(-a // b)


# ---------------------------------------------------------------- observation of the library's tree
def rec_tuple(c):
    rr = c.rock_ridge
    links = rr.dr_entries.px_record.posix_file_links if rr.dr_entries.px_record is not None \
        else rr.ce_entries.px_record.posix_file_links
    cl = rr.child_link_record_exists()
    pl = rr.parent_link_record_exists()
    re_ = rr.relocated_record()
    sym = rr.is_symlink()
    flags = (1 if c.isdir else 0) + (2 if cl else 0) + (4 if re_ else 0) + (8 if pl else 0) + (16 if sym else 0)
    ext = c.extent_location() if (c.isdir or cl) else 0
    clv = rr.child_link_extent() if cl else -1
    plv = rr.parent_link_extent() if pl else -1
    name = b'' if c.file_ident in (b'\x00', b'\x01') else rr.name()
    return (c.file_ident, name, flags, links, ext, -2 if clv is None else clv, -2 if plv is None else plv)


def dump(iso):
    root = iso.pvd.root_directory_record()
    out = []
    q = collections.deque([(root, [])])
    while q:
        d, path = q.popleft()
        out.append((path, d.extent_location(), cdiv(d.data_length, BLOCK), [rec_tuple(c) for c in d.children]))
        for c in d.children[2:]:
            if c.isdir:
                q.append((c, path + [c.file_ident]))
    return out


# ---------------------------------------------------------------- an independent SUSP / RRIP reader
def susp_entries(img, su):
    """entries (sig, bytes) of a system use area, following CE"""
    out = []
    todo = [su]
    while todo:
        area = todo.pop(0)
        i = 0
        while i + 4 <= len(area):
            sig = area[i:i + 2]
            ln = area[i + 2]
            if ln < 4 or sig == b'\x00\x00':
                break
            ent = area[i:i + ln]
            if sig == b'CE':
                blk, off, cl = struct.unpack_from('<L', ent, 4)[0], struct.unpack_from('<L', ent, 12)[0], \
                    struct.unpack_from('<L', ent, 20)[0]
                todo.append(img[blk * BLOCK + off: blk * BLOCK + off + cl])
            elif sig == b'ST':
                break
            else:
                out.append((sig, ent))
            i += ln
    return out


def dir_records(img, extent):
    """records of the directory at the extent; its length is taken from its first record"""
    base = extent * BLOCK
    total = struct.unpack_from('<L', img, base + 10)[0]
    recs = []
    off = 0
    while off < total:
        ln = img[base + off]
        if ln == 0:
            off = (off // BLOCK + 1) * BLOCK
            continue
        r = img[base + off: base + off + ln]
        ext = struct.unpack_from('<L', r, 2)[0]
        flags = r[25]
        nlen = r[32]
        ident = bytes(r[33:33 + nlen])
        su = r[33 + nlen + (1 - nlen % 2):]
        skip = 0
        ents = susp_entries(img, su[skip:])
        d = {'ext': ext, 'dir': bool(flags & 2), 'ident': ident, 'nm': b'', 'links': None, 'cl': None,
             'pl': None, 're': False, 'sl': False}
        for sig, e in ents:
            if sig == b'NM':
                d['nm'] += bytes(e[5:])
            elif sig == b'PX':
                d['links'] = struct.unpack_from('<L', e, 12)[0]
            elif sig == b'CL':
                d['cl'] = struct.unpack_from('<L', e, 4)[0]
            elif sig == b'PL':
                d['pl'] = struct.unpack_from('<L', e, 4)[0]
            elif sig == b'RE':
                d['re'] = True
            elif sig == b'SL':
                d['sl'] = True
        recs.append(d)
        off += ln
    return recs


def read_tree(img, extent, isroot, depth=0):
    if depth > 64:
        raise ValueError('directory loop')
    recs = dir_records(img, extent)
    kids = []
    for r in recs:
        if r['ident'] in (b'\x00', b'\x01') or r['re']:
            continue
        if isroot and r['ident'] == b'RR_MOVED':
            continue
        if r['cl'] is not None:
            n, ks = read_tree(img, r['cl'], False, depth + 1)
            kids.append((True, False, r['ident'], r['nm'], n, ks))
        elif r['dir']:
            n, ks = read_tree(img, r['ext'], False, depth + 1)
            kids.append((True, False, r['ident'], r['nm'], n, ks))
        else:
            kids.append((False, r['sl'], r['ident'], r['nm'], 0, []))
    return recs[0]['links'], kids


def read_image(img):
    root_ext = struct.unpack_from('<L', img, 16 * BLOCK + 156 + 2)[0]
    return read_tree(img, root_ext, True)


# ---------------------------------------------------------------- running histories
def ipath(comps):
    return '/' + '/'.join(x.decode('latin-1') for x in comps)


class Runner:
    """ops:  ('adddir', comps, rr) ('rmdir', comps) ('addleaf', sym, comps, rr) ('rmleaf', comps) ('reopen',)
    comps = list of identifiers (bytes), rr = bytes"""

    def __init__(self, version):
        self.version = version
        self.iso = pycdlib.PyCdlib()
        self.iso.new(interchange_level=3, rock_ridge=version)
        self.ops = []
        self.obs = []
        self.dead = False       # write_fp failed: the library state is corrupt, the history ends
        self.dirs = {(): None}  # the tool's own book-keeping of logical directories -> set of child names
        self.tree = {(): {}}    # path -> {name: kind}

    def apply(self, op):
        iso = self.iso
        try:
            if op[0] == 'adddir':
                iso.add_directory(ipath(op[1]), rr_name=op[2].decode('latin-1'))
            elif op[0] == 'rmdir':
                iso.rm_directory(ipath(op[1]))
            elif op[0] == 'addleaf':
                if op[1]:
                    iso.add_symlink(ipath(op[2]), op[3].decode('latin-1'), 'tgt')
                else:
                    iso.add_fp(io.BytesIO(b'x'), 1, ipath(op[2]), rr_name=op[3].decode('latin-1'))
            elif op[0] == 'rmleaf':
                iso.rm_file(ipath(op[1]))
            elif op[0] == 'reopen':
                out = io.BytesIO()
                iso.write_fp(out)
                out.seek(0)
                self.iso = pycdlib.PyCdlib()
                self.iso.open_fp(out)
            else:
                raise ValueError(op)
            return True
        except pycdlib.pycdlibexception.PyCdlibException:
            return False

    def do(self, op):
        """returns accepted; after the state became unwritable nothing more is run"""
        if self.dead:
            return False
        ok = self.apply(op)
        d = []
        try:
            self.iso._reshuffle_extents()   # what write_fp() does first
            d = dump(self.iso)
            out = io.BytesIO()
            self.iso.write_fp(out)
            wr = True
            self.last = out.getvalue()
        except Exception:   # pylint: disable=broad-except
            wr = False      # the library state is corrupt: the checker reports the case
            self.dead = True
        self.ops.append(op)
        self.obs.append((ok, wr, d))
        if ok:
            self.book(op)
        return ok

    def book(self, op):
        t = self.tree
        if op[0] == 'adddir':
            p = tuple(op[1])
            t[p[:-1]][p[-1]] = 'd'
            t[p] = {}
        elif op[0] == 'rmdir':
            p = tuple(op[1])
            del t[p[:-1]][p[-1]]
            del t[p]
        elif op[0] == 'addleaf':
            p = tuple(op[2])
            t[p[:-1]][p[-1]] = 'l'
        elif op[0] == 'rmleaf':
            p = tuple(op[1])
            del t[p[:-1]][p[-1]]

    def case(self, label):
        fin = None
        if not self.dead and self.ops:
            fin = read_image(self.last)
        return {'label': label, 'ops': self.ops, 'obs': self.obs, 'fin': fin}


# ---------------------------------------------------------------- rendering
def coq_z(v):
    return str(v) if v >= 0 else '(%d)' % v


def coq_bytes(b):
    return '[' + ';'.join(str(x) for x in b) + ']'


def coq_path(comps):
    return '[' + ';'.join(coq_bytes(c) for c in comps) + ']'


def coq_bool(b):
    return 'true' if b else 'false'


def coq_op(op):
    if op[0] == 'adddir':
        return 'AddDir %s %s' % (coq_path(op[1]), coq_bytes(op[2]))
    if op[0] == 'rmdir':
        return 'RmDir %s' % coq_path(op[1])
    if op[0] == 'addleaf':
        return 'AddLeaf %s %s %s' % (coq_bool(op[1]), coq_path(op[2]), coq_bytes(op[3]))
    if op[0] == 'reopen':
        return 'Reopen'
    return 'RmLeaf %s' % coq_path(op[1])


def coq_rec(r):
    return '(%s,%s,%d,%d,%d,%s,%s)' % (coq_bytes(r[0]), coq_bytes(r[1]), r[2], r[3], r[4], coq_z(r[5]), coq_z(r[6]))


def coq_dir(d):
    return '(%s,%d,%d,[%s])' % (coq_path(d[0]), d[1], d[2], ';'.join(coq_rec(r) for r in d[3]))


def coq_obs(o):
    return '(%s,%s,[%s])' % (coq_bool(o[0]), coq_bool(o[1]), ';\n   '.join(coq_dir(d) for d in o[2]))


def coq_tree(t):
    return 'OT %s %s %s %s %d [%s]' % (coq_bool(t[0]), coq_bool(t[1]), coq_bytes(t[2]), coq_bytes(t[3]), t[4],
                                       ';'.join(coq_tree(k) for k in t[5]))


def render(case):
    fin = 'None'
    if case['fin'] is not None:
        fin = 'Some (%d, [%s])' % (case['fin'][0], ';'.join(coq_tree(k) for k in case['fin'][1]))
    return '([%s],\n [%s],\n %s)' % (';\n  '.join(coq_op(o) for o in case['ops']),
                                    ';\n  '.join(coq_obs(o) for o in case['obs']), fin)


# ---------------------------------------------------------------- histories
DNAMES = [b'A', b'B', b'C', b'H', b'H000', b'K2', b'LONGNAME']
LETTERS = [b'A', b'B', b'C', b'D', b'E', b'F', b'G', b'H', b'I', b'J', b'K', b'L', b'M', b'N', b'O', b'P', b'Q', b'R']


def rrn(rng, ident):
    base = ident.lower().replace(b';1', b'').replace(b'.', b'')
    return base if rng.random() < 0.7 else base + rng.choice([b'_x', b'-long-name', b'2'])


def chain(run, rng, base, names):
    p = list(base)
    for n in names:
        p = p + [n]
        run.do(('adddir', p, rrn(rng, n)))
    return p


def chain_scenario(run, rng, depth):
    """a chain of the given depth, removed bottom-up, then rebuilt"""
    names = LETTERS[:depth]
    chain(run, rng, [], names)
    if rng.random() < 0.5:
        run.do(('adddir', names[:7] + [b'X'], b'x'))      # a second relocated sibling keeps RR_MOVED alive
    if rng.random() < 0.5:
        run.do(('reopen',))
    for k in range(depth, max(depth - 4, 0), -1):
        run.do(('rmdir', names[:k - 1]))                   # refused while not empty
        run.do(('rmdir', names[:k]))
    if rng.random() < 0.5:
        run.do(('reopen',))                                # RR_MOVED may just have disappeared
    chain(run, rng, names[:max(depth - 4, 0)], names[max(depth - 4, 0):])


def siblings_scenario(run, rng):
    """several relocated siblings, removal of some, logical parent's siblings"""
    names = LETTERS[:7]
    chain(run, rng, [], names)
    sibs = rng.sample(DNAMES, 4)
    for n in sibs:
        run.do(('adddir', names + [n], rrn(rng, n)))
    run.do(('adddir', names[:6] + [b'G2'], b'g2'))
    if rng.random() < 0.5:
        run.do(('reopen',))
    run.do(('adddir', names + [sibs[0]], b'dup'))          # duplicate: refused
    run.do(('rmdir', names))                               # not empty: refused
    run.do(('rmdir', names + [sibs[1]]))
    run.do(('rmdir', names[:6] + [b'G2']))
    run.do(('adddir', names + [sibs[1]], b'again'))
    run.do(('adddir', names + [sibs[2], b'DEEP'], b'deep'))
    run.do(('rmdir', names + [sibs[2]]))                   # not empty: refused
    for n in sibs:
        run.do(('rmdir', names + [n, b'DEEP']))
        run.do(('rmdir', names + [n]))
    run.do(('adddir', names + [sibs[3]], b'last'))


def collide_scenario(run, rng):
    """the same name relocated from different parents: H, H000, H001 inside RR_MOVED"""
    tops = [b'T1', b'T2', b'T3', b'T4']
    mid = LETTERS[1:7]
    leaf = rng.choice([b'H', b'LONGNAME'])
    for t in tops[:3]:
        chain(run, rng, [], [t] + mid + [leaf])
    if rng.random() < 0.5:
        run.do(('reopen',))
    run.do(('adddir', [tops[0]] + mid + [leaf + b'000'], b'explicit'))
    run.do(('rmdir', [tops[1]] + mid + [leaf]))
    chain(run, rng, [], [tops[3]] + mid + [leaf])
    run.do(('adddir', [tops[1]] + mid + [leaf], b'back'))
    run.do(('addleaf', False, [tops[2]] + mid + [leaf, b'F.;1'], b'f'))
    run.do(('rmdir', [tops[2]] + mid + [leaf]))            # not empty: refused
    run.do(('rmleaf', [tops[2]] + mid + [leaf, b'F.;1']))
    run.do(('rmdir', [tops[2]] + mid + [leaf]))


def deep_scenario(run, rng):
    """a chain of depth 17: relocation at 8 and again at 16; leaves inside relocated directories"""
    names = LETTERS[:17] if rng.random() < 0.5 else LETTERS[:12]
    chain(run, rng, [], names)
    run.do(('addleaf', False, names[:9] + [b'FILE.;1'], b'file'))
    run.do(('addleaf', True, names[:8] + [b'SYM.;1'], b'sym'))
    run.do(('addleaf', False, names[:8] + [b'SYM.;1'], b'dup'))      # duplicate: refused
    run.do(('adddir', names[:9] + [b'FILE.;1', b'SUB'], b'sub'))     # parent is a file: refused
    run.do(('rmleaf', names[:8]))                                    # a directory: refused
    run.do(('rmdir', names[:8] + [b'SYM.;1']))                       # a symlink: refused
    run.do(('rmleaf', names[:9] + [b'FILE.;1']))
    if rng.random() < 0.5:
        run.do(('reopen',))
    if len(names) == 17:
        run.do(('rmdir', names[:17]))
        run.do(('rmdir', names[:16]))
        run.do(('adddir', names[:16], b'again16'))
    run.do(('adddir', names[:7] + [b'H2'], b'h2'))
    run.do(('rmdir', names[:7] + [b'H2']))


def fileparent_scenario(run, rng):
    """add_directory below a file (depth 2 and depth 8): refused, nothing changes"""
    names = LETTERS[:6]
    chain(run, rng, [], names)
    run.do(('addleaf', False, [b'TOP.;1'], b'top'))
    run.do(('adddir', [b'TOP.;1', b'D'], b'd'))
    run.do(('addleaf', rng.random() < 0.5, names + [b'G.;1'], b'g'))
    run.do(('adddir', names + [b'G.;1', b'H'], b'h'))      # depth 8 below a leaf
    run.do(('adddir', names + [b'G.;1', b'H'], b'h'))
    run.do(('adddir', names + [b'G'], b'g'))
    run.do(('adddir', names + [b'G', b'H'], b'h'))
    run.do(('rmdir', names + [b'G', b'H']))


def random_history(run, rng, nops, keeper):
    """random walk over the tool's own book-keeping of the logical tree"""
    base = LETTERS[:rng.choice([5, 6, 7, 7])]
    chain(run, rng, [], base)
    if keeper:
        run.do(('adddir', LETTERS[:7] + [b'KEEP'], b'keep')) if len(base) == 7 else None
    for _ in range(nops):
        if run.dead:
            break
        dirs = sorted(run.tree.keys(), key=lambda p: (len(p), p))
        deep = [p for p in dirs if len(p) >= 5] or dirs
        sel = rng.random()
        if sel < 0.45:
            par = list(rng.choice(deep))
            n = rng.choice(DNAMES + LETTERS[:4])
            run.do(('adddir', par + [n], rrn(rng, n)))
        elif sel < 0.65:
            cands = [p for p in deep if p and (keeper is False or p[-1] != b'KEEP')]
            if cands:
                empt = [p for p in cands if not run.tree[p]]
                p = rng.choice(empt) if empt and rng.random() < 0.8 else rng.choice(cands)
                run.do(('rmdir', list(p)))
        elif sel < 0.8:
            par = list(rng.choice(deep))
            n = rng.choice([b'F1.;1', b'F2.;1', b'S.;1'])
            run.do(('addleaf', n == b'S.;1', par + [n], rrn(rng, n)))
        elif sel < 0.87:
            leaves = [p + (n,) for p in dirs for n, k in run.tree[p].items() if k == 'l']
            if leaves:
                run.do(('rmleaf', list(rng.choice(leaves))))
        elif sel < 0.91:
            run.do(('reopen',))
        else:
            # invalid operations
            par = list(rng.choice(dirs))
            which = rng.randrange(4)
            if which == 0:
                run.do(('rmdir', par + [b'NOPE']))
            elif which == 1:
                run.do(('adddir', par + [b'NOPE', b'X'], b'x'))
            elif which == 2:
                run.do(('rmleaf', par))
            else:
                leaves = [p + (n,) for p in dirs for n, k in run.tree[p].items() if k == 'l']
                if leaves:
                    run.do(('adddir', list(rng.choice(leaves)) + [b'Z'], b'z'))


def cases(seed, n):
    """n histories, deterministic from the seed."""
    out = []
    for k in range(n):
        rng = random.Random(seed * 1000003 + k)
        version = rng.choice(['1.09', '1.09', '1.09', '1.12', '1.10'])
        run = Runner(version)
        sel = k % 10
        if sel == 0:
            depth = [7, 8, 9, 10][(k // 10) % 4]
            chain_scenario(run, rng, depth)
            label = 'chain depth %d' % depth
        elif sel == 1:
            siblings_scenario(run, rng)
            label = 'relocated siblings'
        elif sel == 2:
            collide_scenario(run, rng)
            label = 'same names from different parents'
        elif sel == 3:
            deep_scenario(run, rng)
            label = 'deep chain with leaves'
        elif sel == 4:
            fileparent_scenario(run, rng)
            label = 'add_directory below a file'
        else:
            nops = rng.choice([8, 12, 16, 24])
            keeper = sel < 8
            random_history(run, rng, nops, keeper)
            label = 'random, %d ops%s' % (nops, ', keeper' if keeper else '')
        out.append(run.case('seed %d #%d: %s (%s)' % (seed, k, label, version)))
    return out


def write_shard(path, cs):
    with open(path, 'w') as f:
        f.write('(* GENERATED by /verif/tools/reloc_cases.py: the physical tree the real pycdlib held after every\n'
                '   operation of %d Rock Ridge relocation histories, and what an independent reader found in the\n'
                '   written bytes; Model/Reloc.v must reproduce all of it. *)\n' % len(cs))
        f.write('From Coq Require Import ZArith List Bool.\nFrom PV.Model Require Import Reloc.\n')
        f.write('Import ListNotations.\nLocal Open Scope Z_scope.\n\n')
        f.write('Definition cases : list case :=\n[')
        f.write(';\n'.join('(* %s *)\n %s' % (c['label'], render(c)) for c in cs))
        f.write('].\n\nEval vm_compute in bad_reloc_cases 0 cases.\n')


def main():
    outdir, seed, n = sys.argv[1], int(sys.argv[2]), int(sys.argv[3])
    shard = int(sys.argv[4]) if len(sys.argv) > 4 else 20
    os.makedirs(outdir, exist_ok=True)
    cs = cases(seed, n)
    nops = sum(len(c['ops']) for c in cs)
    nacc = sum(1 for c in cs for o in c['obs'] if o[0])
    dead = sum(1 for c in cs if c['obs'] and not c['obs'][-1][1])
    maxd = max([len(d[0]) for c in cs for o in c['obs'] for d in o[2]] or [0])
    for k in range(0, len(cs), shard):
        write_shard(os.path.join(outdir, 'reloc_%d_%d.v' % (seed, k // shard)), cs[k:k + shard])
    print('%d histories, %d operations, %d accepted, %d histories end unwritable, deepest physical path %d'
          % (len(cs), nops, nacc, dead, maxd))


if __name__ == '__main__':
    main()
