"""Differential cases for coq/theories/Model/UdfLayout.v: the layout PyCdlib gives to a whole UDF tree.

  cases(seed, n) -> list of case, deterministic from seed
  render(case)   -> Coq term of type UdfLayout.udflayout_case (for UdfLayout.bad_udflayout_cases)

A case is (ops, (iso_meta, iso_files), globals, nodes):
  ops      : the history, as the tool performed it on a real PyCdlib object made with new(udf='2.60'):
             ('mkdir', path) | ('add', path, length) | ('link', old, new) | ('rmlink', path) |
             ('rmfile', path) | ('rmdir', path); a path is a list of ENCODED names (latin-1, else
             utf-16_be, as UDFFileIdentifierDescriptor.new does).  Refused operations stay in the history
             (the model must refuse them too).  Inode ids are the model's: the k-th accepted 'add' is inode k.
  iso side : what the ISO9660 side contributes (no Joliet / Rock Ridge): blocks between the end of
             the UDF metadata and the first file data, computed from the ISO9660 BOOKKEEPING
             (2 * path_table_num_extents + ceil(data_length / 2048) of every ISO9660 directory), and the
             (inode id, length) list of the non-empty ISO9660 files in ISO9660 walk order.  ISO9660-only
             inodes get ids >= 2000.
  globals  : [part_start, part_length, size_tables[0], num_files, num_dirs, unique_id, space_size, last anchor]
  nodes    : depth first over iso.udf_root / fi_descs / file_entry, one list of integers per node:
             directory [1, extent, tag_location, unique_id, info_len, ad.log_block_num, ad.extent_length,
                        log_block_recorded] + [fid tag_location ...] + [fid icb.log_block_num ...]
             file      [0, extent, tag_location, unique_id, info_len, log_block_recorded,
                        inode.new_extent_loc] + [ad.log_block_num, ad.extent_length ...]
Everything is read OFF THE OBJECT GRAPH after iso.force_consistency(); nothing is written, so file
lengths up to several GiB cost nothing.

Run as a script: udf_layout_cases.py SEED N [workdir]  (evaluates the cases with coqc, shards of 50)."""
import sys, io, random
import os
_TREE = os.environ.get('VERIF_REPO', '/repo')
if _TREE not in sys.path:
    sys.path.insert(0, _TREE)
import pycdlib
from pycdlib import pycdlibexception as pe

LAT = 'abcdefghijklmnopqrstuvwxyzABCDEFGHIJKLMNOPQRSTUVWXYZ0123456789_-+ \xe9\xfc\xdf\xf1'
WIDE = 'Ł中ЖΩ'
M_PIECE = 0xfffff800
M_AD = 0x3ffff800


def enc(name):
    try: return list(name.encode('latin-1'))
    except UnicodeEncodeError: return list(name.encode('utf-16_be'))


def fid_len(n):            # UDFFileIdentifierDescriptor.length(len(fi)) for fi of n > 0 bytes
    t = 38 + n + 1
    return t + (4 - t % 4) % 4


class Tree:
    """the tool's own bookkeeping of the UDF namespace (never read from pycdlib)"""
    def __init__(self):
        self.root = {'dir': True, 'name': '', 'kids': []}
        self.next_ino = 0

    def find(self, path):
        cur = self.root
        for n in path:
            if not cur['dir']: return None
            for k in cur['kids']:
                if k['name'] == n: cur = k; break
            else: return None
        return cur

    def dirs(self, node=None, path=()):
        node = node or self.root
        out = [list(path)]
        for k in node['kids']:
            if k['dir']: out += self.dirs(k, path + (k['name'],))
        return out

    def files(self, node=None, path=()):
        node = node or self.root
        out = []
        for k in node['kids']:
            if k['dir']: out += self.files(k, path + (k['name'],))
            else: out.append(list(path) + [k['name']])
        return out

    def purge(self, ino, node=None):
        node = node or self.root
        node['kids'] = [k for k in node['kids'] if k['dir'] or k['ino'] != ino]
        for k in node['kids']:
            if k['dir']: self.purge(ino, k)


def upath(path): return '/' + '/'.join(path)


class Run:
    def __init__(self, rng, mixed=False):
        self.rng = rng
        self.iso = pycdlib.PyCdlib()
        self.iso.new(udf='2.60', interchange_level=3)
        self.tree = Tree()
        self.ops = []
        self.inoid = {}          # id(Inode object) -> model inode id
        self.mixed = mixed
        self.isoctr = 0
        self.isodirs = ['']
        self.keep = []

    # -- name material
    def name(self, lo=1, hi=120):
        rng = self.rng
        L = rng.randint(lo, hi)
        if rng.random() < 0.15:
            s = ''.join(rng.choice(WIDE + 'abc') for _ in range(max(1, L // 2)))
            if all(ord(c) < 256 for c in s): s = 'Ł' + s[1:]
            return s
        s = ''.join(rng.choice(LAT) for _ in range(L))
        if s in ('.', '..') or s.strip() != s: s = 'x' + s[1:-1] + 'y' if L > 1 else 'x'
        return s

    def fresh(self, parent, lo=1, hi=120, exact=None):
        node = self.tree.find(parent)
        for _ in range(50):
            n = self.name(lo, hi) if exact is None else ''.join(self.rng.choice(LAT[:62]) for _ in range(exact))
            if all(k['name'] != n for k in node['kids']): return n
        raise RuntimeError('no fresh name')

    def note_new_inodes(self, before, ino_id):
        new = self.iso.inodes[before:]
        for k, ino in enumerate(new):
            self.inoid[id(ino)] = ino_id if k == len(new) - 1 else 3000 + len(self.inoid)
        self.keep += new

    # -- operations (performed on pycdlib and, when accepted, on the tool's tree)
    def mkdir(self, path):
        self.ops.append(('mkdir', [enc(n) for n in path]))
        try:
            self.iso.add_directory(udf_path=upath(path)); ok = True
        except pe.PyCdlibException: ok = False
        parent = self.tree.find(path[:-1])
        exp = parent is not None and parent['dir'] and 1 <= len(enc(path[-1])) <= 254 and all(k['name'] != path[-1] for k in parent['kids'])
        assert ok == exp, ('mkdir', path, ok, exp)
        if ok: parent['kids'].append({'dir': True, 'name': path[-1], 'kids': []})
        return ok

    def add(self, path, length, with_iso=False):
        self.ops.append(('add', [enc(n) for n in path], length))
        before = len(self.iso.inodes)
        kw = {}
        if with_iso:
            self.isoctr += 1
            d = self.rng.choice(self.isodirs)
            kw['iso_path'] = d + '/F%05d.;1' % self.isoctr
        parent = self.tree.find(path[:-1])
        exp = parent is not None and parent['dir'] and 1 <= len(enc(path[-1])) <= 254 and all(k['name'] != path[-1] for k in parent['kids'])
        if not exp: kw = {}       # a refused UDF add must not leave an ISO9660 record behind
        try:
            self.iso.add_fp(io.BytesIO(b'\0' * min(length, 4096)), length, udf_path=upath(path), **kw); ok = True
        except pe.PyCdlibException: ok = False
        assert ok == exp, ('add', path, ok, exp)
        if ok:
            self.note_new_inodes(before, self.tree.next_ino)
            parent['kids'].append({'dir': False, 'name': path[-1], 'len': length, 'ino': self.tree.next_ino})
            self.tree.next_ino += 1
        else:
            del self.iso.inodes[before:]      # the orphan Inode _add_fp leaves behind plays no role
        return ok

    def link(self, old, new):
        self.ops.append(('link', [enc(n) for n in old], [enc(n) for n in new]))
        try:
            self.iso.add_hard_link(udf_old_path=upath(old), udf_new_path=upath(new)); ok = True
        except pe.PyCdlibException: ok = False
        src = self.tree.find(old); parent = self.tree.find(new[:-1])
        exp = (src is not None and not src['dir'] and parent is not None and parent['dir'] and
               1 <= len(enc(new[-1])) <= 254 and all(k['name'] != new[-1] for k in parent['kids']))
        assert ok == exp, ('link', old, new, ok, exp)
        if ok: parent['kids'].append({'dir': False, 'name': new[-1], 'len': src['len'], 'ino': src['ino']})
        return ok

    def rmlink(self, path):
        self.ops.append(('rmlink', [enc(n) for n in path]))
        try:
            self.iso.rm_hard_link(udf_path=upath(path)); ok = True
        except pe.PyCdlibException: ok = False
        node = self.tree.find(path)
        exp = node is not None and node is not self.tree.root and not node['dir']
        assert ok == exp, ('rmlink', path, ok, exp)
        if ok:
            parent = self.tree.find(path[:-1]); parent['kids'].remove(node)
        return ok

    def rmfile(self, path):
        self.ops.append(('rmfile', [enc(n) for n in path]))
        try:
            self.iso.rm_file(udf_path=upath(path)); ok = True
        except pe.PyCdlibException: ok = False
        node = self.tree.find(path)
        exp = node is not None and node is not self.tree.root and not node['dir']
        assert ok == exp, ('rmfile', path, ok, exp)
        if ok: self.tree.purge(node['ino'])
        return ok

    def rmdir(self, path):
        self.ops.append(('rmdir', [enc(n) for n in path]))
        try:
            self.iso.rm_directory(udf_path=upath(path)); ok = True
        except pe.PyCdlibException: ok = False
        node = self.tree.find(path)
        exp = node is not None and node is not self.tree.root and node['dir'] and not node['kids']
        assert ok == exp, ('rmdir', path, ok, exp)
        if ok:
            parent = self.tree.find(path[:-1]); parent['kids'].remove(node)
        return ok

    # -- ISO9660-only material (mixed images)
    def iso_only_dir(self):
        self.isoctr += 1
        d = self.rng.choice(self.isodirs) + '/D%05d' % self.isoctr
        if d.count('/') > 6: return
        self.iso.add_directory(iso_path=d); self.isodirs.append(d)

    def iso_only_file(self, length):
        self.isoctr += 1
        before = len(self.iso.inodes)
        self.iso.add_fp(io.BytesIO(b'\0' * min(length, 4096)), length, iso_path=self.rng.choice(self.isodirs) + '/G%05d.;1' % self.isoctr)
        for ino in self.iso.inodes[before:]:
            self.inoid[id(ino)] = 2000 + len(self.inoid)
            self.keep.append(ino)

    # -- observation
    def observe(self):
        iso = self.iso
        iso.force_consistency()
        part = iso.udf_main_descs.partitions[0]
        assert iso.udf_reserve_descs.partitions[0].part_length == part.part_length
        lv = iso.udf_logical_volume_integrity
        glob = [part.part_start_location, part.part_length, lv.size_tables[0], lv.logical_volume_impl_use.num_files,
                lv.logical_volume_impl_use.num_dirs, lv.logical_volume_contents_use.unique_id, iso.pvd.space_size,
                iso.udf_anchors[1].extent_location()]
        assert iso.udf_file_set.root_dir_icb.log_block_num == 2 and iso.udf_file_set.extent_location() == part.part_start_location
        nodes = []

        def walk(fe):
            ds = fe.fi_descs
            assert ds[0].is_parent() and not any(d.is_parent() for d in ds[1:]) and len(fe.alloc_descs) == 1
            assert all(d.extent_location() - part.part_start_location == d.desc_tag.tag_location for d in ds)
            nodes.append([1, fe.extent_location(), fe.desc_tag.tag_location, fe.unique_id, fe.info_len, fe.alloc_descs[0].log_block_num,
                          fe.alloc_descs[0].extent_length, fe.log_block_recorded] +
                         [d.desc_tag.tag_location for d in ds] + [d.icb.log_block_num for d in ds])
            for d in ds[1:]:
                f = d.file_entry
                if d.is_dir(): walk(f)
                else:
                    ads = []
                    for a in f.alloc_descs: ads += [a.log_block_num, a.extent_length]
                    nodes.append([0, f.extent_location(), f.desc_tag.tag_location, f.unique_id, f.info_len, f.log_block_recorded,
                                  f.inode.new_extent_loc] + ads)
        walk(iso.udf_root)
        # the ISO9660 side, from its bookkeeping (not from the extents it was given)
        meta = 2 * iso.pvd.path_table_num_extents
        ifiles = []
        queue = [iso.pvd.root_directory_record()]
        while queue:
            rec = queue.pop(0)
            if rec.is_dir():
                if not rec.is_root and (rec.is_dot() or rec.is_dotdot()): continue
                meta += -(-rec.data_length // 2048)
                queue += rec.children
            elif rec.data_length > 0 and rec.inode is not None:
                ifiles.append((self.inoid[id(rec.inode)], rec.inode.data_length))
        return (self.ops, (meta, ifiles), glob, nodes)


# ---- scenarios ------------------------------------------------------------------------------------
def rand_len(rng):
    x = rng.random()
    if x < 0.2: return 0
    if x < 0.5: return rng.randint(1, 2048)
    if x < 0.6: return rng.choice([2047, 2048, 2049, 4096, 4097])
    if x < 0.95: return rng.randint(2049, 200000)
    return rng.choice([M_AD - 1, M_AD, M_AD + 1, 2 * M_AD, 2 * M_AD + 2049, M_PIECE])


def sc_random(run, nops, p_bad=0.08, big=False):
    rng = run.rng; t = run.tree
    for k in range(nops):
        x = rng.random()
        grow = 0.75 if (k // 12) % 2 == 0 else 0.35
        dirs = t.dirs(); files = t.files()
        if rng.random() < p_bad:
            y = rng.random()
            if y < 0.2 and files: run.mkdir(rng.choice(files))                        # duplicate of a file name
            elif y < 0.35 and len(dirs) > 1: run.add(rng.choice(dirs[1:]), 5)          # duplicate of a directory name
            elif y < 0.5: run.rmdir(rng.choice(dirs) + ['nope'])                       # missing
            elif y < 0.6 and files: run.rmdir(rng.choice(files))                       # a file
            elif y < 0.7 and len(dirs) > 1: run.rmlink(rng.choice(dirs[1:]))           # a directory
            elif y < 0.8 and len(dirs) > 1: run.rmfile(rng.choice(dirs[1:]))
            elif y < 0.9 and len(dirs) > 1: run.link(rng.choice(dirs[1:]), ['lnk'])
            else: run.add(rng.choice(dirs) + ['x' * rng.choice([255, 256, 300])], 1)
            continue
        if x < grow:
            parent = rng.choice(dirs[-4:] if rng.random() < 0.4 else dirs)
            y = rng.random()
            if y < 0.3: run.mkdir(parent + [run.fresh(parent, 1, 60)])
            elif y < 0.8 or not files:
                L = rand_len(rng) if not big else rng.choice([M_PIECE + 1, M_PIECE + 5000, 2 * M_PIECE, 2 * M_PIECE + 1, M_AD + 7, 3])
                run.add(parent + [run.fresh(parent)], L, with_iso=run.mixed and rng.random() < 0.6)
            else: run.link(rng.choice(files), parent + [run.fresh(parent)])
            if run.mixed and rng.random() < 0.15: run.iso_only_dir()
            if run.mixed and rng.random() < 0.15: run.iso_only_file(rng.randint(1, 9000))
        else:
            y = rng.random()
            empties = [d for d in dirs[1:] if not t.find(d)['kids']]
            if y < 0.35 and files: run.rmlink(rng.choice(files))
            elif y < 0.65 and files: run.rmfile(rng.choice(files))
            elif y < 0.85 and empties: run.rmdir(rng.choice(empties))
            elif len(dirs) > 1: run.rmdir(rng.choice(dirs[1:]))                        # often refused: not empty
            elif files: run.rmfile(rng.choice(files))


def sc_boundary(run):
    """directories whose identifier area is exactly / one FID step below / above a block boundary"""
    rng = run.rng
    for di in range(rng.randint(1, 3)):
        d = [] if di == 0 and rng.random() < 0.5 else [run.fresh([], 1, 30)]
        if d: run.mkdir(d)
        target = rng.choice([2048, 4096, 6144]) + rng.choice([-4, 0, 0, 4])
        used = 40 + sum(fid_len(len(enc(k['name']))) for k in run.tree.find(d)['kids'])
        while target - used > 296 + 44:
            n = run.fresh(d, 1, 120)
            if rng.random() < 0.25: run.mkdir(d + [n])
            else: run.add(d + [n], rand_len(rng))
            used += fid_len(len(enc(n)))
        rem = target - used                      # 44 < rem <= 340
        while rem > 293:
            n = run.fresh(d, exact=1); run.add(d + [n], 0); rem -= 44
        n = run.fresh(d, exact=rem - 39)           # 38 + (len + 1) = rem, a multiple of 4
        run.add(d + [n], rng.choice([0, 1, 5000]))
        if rng.random() < 0.5:                     # and back over the boundary
            files = [p for p in run.tree.files() if p[:-1] == d]
            run.rmlink(rng.choice(files))
            if rng.random() < 0.5: run.add(d + [run.fresh(d, 1, 8)], 7)


def sc_deep(run):
    rng = run.rng
    path = []
    for lvl in range(rng.randint(4, 14)):
        n = run.fresh(path, 1, 40)
        run.mkdir(path + [n])
        for _ in range(rng.randint(0, 2)): run.add(path + [run.fresh(path)], rand_len(rng))
        if rng.random() < 0.3: run.mkdir(path + [run.fresh(path, 1, 20)])
        path = path + [n]
    files = run.tree.files()
    for _ in range(rng.randint(0, 4)):
        if files: run.link(rng.choice(files), rng.choice(run.tree.dirs()) + ['h%d' % len(run.ops)])


def sc_links(run):
    rng = run.rng
    for k in range(rng.randint(2, 4)): run.mkdir(['d%d' % k])
    for k in range(rng.randint(2, 6)): run.add([rng.choice(['d0', 'd1']), 'f%d' % k], rand_len(rng))
    for k in range(rng.randint(4, 14)):
        files = run.tree.files()
        if not files: break
        x = rng.random()
        if x < 0.6: run.link(rng.choice(files), rng.choice(run.tree.dirs()) + ['l%d' % k])
        elif x < 0.8: run.rmlink(rng.choice(files))
        else: run.rmfile(rng.choice(files))
    sc_random(run, rng.randint(0, 10))


def one_case(seed):
    rng = random.Random(seed)
    kind = seed % 10
    run = Run(rng, mixed=kind in (7, 8))
    if kind in (0, 1, 2): sc_random(run, rng.randint(5, 45))
    elif kind == 3: sc_boundary(run)
    elif kind == 4: sc_deep(run)
    elif kind == 5: sc_links(run)
    elif kind == 6: sc_boundary(run); sc_random(run, rng.randint(0, 15))
    elif kind in (7, 8): sc_random(run, rng.randint(5, 40))
    else: sc_random(run, rng.randint(3, 9), big=True)
    return run.observe()


def cases(seed, n):
    return [one_case(seed * 100000 + k) for k in range(n)]


# ---- rendering --------------------------------------------------------------------------------------
def zl(l): return '[' + '; '.join(str(x) for x in l) + ']'
def pl(p): return '[' + '; '.join(zl(n) for n in p) + ']'


def render_op(o):
    k = o[0]
    if k == 'mkdir': return 'OMkdir %s' % pl(o[1])
    if k == 'add': return 'OAddFile %s %d' % (pl(o[1]), o[2])
    if k == 'link': return 'OLink %s %s' % (pl(o[1]), pl(o[2]))
    if k == 'rmlink': return 'ORmLink %s' % pl(o[1])
    if k == 'rmfile': return 'ORmFile %s' % pl(o[1])
    return 'ORmDir %s' % pl(o[1])


def render(case):
    ops, (meta, ifiles), glob, nodes = case
    return '([%s], (%d, [%s]), %s, [%s])' % ('; '.join(render_op(o) for o in ops), meta,
                                             '; '.join('(%d%%nat, %d)' % x for x in ifiles), zl(glob),
                                             '; '.join(zl(n) for n in nodes))


def main(argv):
    import os, subprocess
    seed = int(argv[1]); n = int(argv[2])
    work = argv[3] if len(argv) > 3 else '/var/tmp/udflayout'
    os.makedirs(work, exist_ok=True)
    cs = cases(seed, n)
    print('cases', len(cs), 'ops', sum(len(c[0]) for c in cs), 'nodes', sum(len(c[3]) for c in cs),
          'max nodes', max(len(c[3]) for c in cs), 'two-block areas', sum(1 for c in cs for x in c[3] if x[0] == 1 and x[7] >= 2),
          'mixed', sum(1 for c in cs if c[1][1]))
    shard = 50
    for ix in range(0, n, shard):
        txt = ['From Coq Require Import ZArith List Bool.', 'Import ListNotations.',
               'From PV.Model Require Import UdfLayout.', 'Local Open Scope Z_scope.',
               'Definition cases : list udflayout_case := [\n%s].' % ';\n'.join(render(c) for c in cs[ix:ix + shard]),
               'Eval vm_compute in bad_udflayout_cases %d cases.' % ix]
        path = os.path.join(work, 'UdfLayoutCases_%d_%d.v' % (seed, ix))
        open(path, 'w').write('\n'.join(txt) + '\n')
        out = subprocess.run(['coqc', '-q', '-Q', '/verif/coq/theories', 'PV', path], capture_output=True, text=True, timeout=1800, cwd=work)
        print(ix, out.returncode, out.stdout.strip()[-300:], out.stderr.strip()[-500:])


if __name__ == '__main__':
    main(sys.argv)
