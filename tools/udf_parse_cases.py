"""Differential cases for coq/theories/Model/UdfParse.v: what PyCdlib.open builds from the UDF tree
PyCdlib.write recorded (PyCdlib._walk_udf_directories), against the model's parse of the model's layout.

  cases(seed, n) -> list of case, deterministic from seed (a history contributes one case per STAGE)
  render(case)   -> Coq term of type UdfParse.udfparse_case (for UdfParse.bad_udfparse_cases)

Per history (generators of udf_layout_cases.py, with real file contents):
  stage 0: build object A with new(udf='2.60'), write it, open the bytes with a NEW object B, read the
           parsed graph off B (before anything reshuffles it), force the layout on B and record that it
           equals the layout A had, write B and compare the bytes with the first image;
  stage 1 (chains): perform MORE operations on B (the opened object) and the same on A (the object that
           never saw an image), compare what both write byte for byte, open B's image with a new object
           C and read the parsed graph off C; and so on.
A case is (ops, (iso_meta, iso_files), ino0, obs):
  ops, iso side : as in udf_layout_cases.py (history so far; ISO9660 side of A's layout)
  ino0          : PyCdlib.inodes of the opened object that come from the ISO9660 walk (they precede the
                  ones the UDF walk makes), as (key in extent_to_inode or 0, extent, length)
  obs           : rows of integers, see UdfParse.up_obs:
                  [3, root entry]; per directory in walk order [1, obj, block, #fids] and per FID
                  [0, isdir, isparent, icb, block, 1, obj, block, is_dir, info_len, parent obj, inode index,
                   #ads, ads..., name bytes...] (or [.., 0, name...] without File Entry);
                  per Inode [2, extent, length, num_udf, linked UDF File Entry objs...].
                  File Entry objects are numbered by IDENTITY in walk order (root 0); a shared object
                  would repeat a number, a parent that is no directory object of the walk gives -2.
Python-side assertions (a failure is a finding, printed with the history): file_entry.file_ident is the
FID, layouts of A and B agree, byte equality of the rewritten images.

Run as a script: udf_parse_cases.py SEED N [workdir]  (evaluates the cases with coqc, shards of <= 50)."""
import sys, io, os, random
_TREE = os.environ.get('VERIF_REPO', '/repo')
if _TREE not in sys.path:
    sys.path.insert(0, _TREE)
sys.path.insert(0, os.path.dirname(os.path.abspath(__file__)))
import time as _time
_time.time = lambda: 1700000000.0          # new File Entries / records get the same timestamps in A and B
import pycdlib
from pycdlib import pycdlibexception as pe
from pycdlib import udf as udfmod
from pycdlib import dr as drmod
import udf_layout_cases as ulc


def small_len(rng):
    x = rng.random()
    if x < 0.3: return 0
    if x < 0.6: return rng.randint(1, 2048)
    if x < 0.75: return rng.choice([2047, 2048, 2049, 4096, 4097])
    return rng.randint(2049, 30000)


ulc.rand_len = small_len                    # the images are really written here


def content(length, tag):
    unit = ('%08x' % (tag & 0xffffffff)).encode()
    return (unit * (length // 8 + 1))[:length]


class PRun(ulc.Run):
    """Run with real file contents and a replay log: calls = [(method, kwargs, accepted)]"""
    def __init__(self, rng, mixed=False):
        ulc.Run.__init__(self, rng, mixed)
        self.calls = []
        self.isonames = []

    def _log(self, meth, kw, ok): self.calls.append((meth, kw, ok))

    def mkdir(self, path):
        ok = ulc.Run.mkdir(self, path); self._log('add_directory', {'udf_path': ulc.upath(path)}, ok); return ok

    def link(self, old, new):
        ok = ulc.Run.link(self, old, new)
        self._log('add_hard_link', {'udf_old_path': ulc.upath(old), 'udf_new_path': ulc.upath(new)}, ok); return ok

    def rmlink(self, path):
        ok = ulc.Run.rmlink(self, path); self._log('rm_hard_link', {'udf_path': ulc.upath(path)}, ok); return ok

    def rmfile(self, path):
        ok = ulc.Run.rmfile(self, path); self._log('rm_file', {'udf_path': ulc.upath(path)}, ok); return ok

    def rmdir(self, path):
        ok = ulc.Run.rmdir(self, path); self._log('rm_directory', {'udf_path': ulc.upath(path)}, ok); return ok

    def add(self, path, length, with_iso=False):
        length = min(length, 30000)
        self.ops.append(('add', [ulc.enc(n) for n in path], length))
        before = len(self.iso.inodes)
        kw = {'udf_path': ulc.upath(path)}
        parent = self.tree.find(path[:-1])
        exp = parent is not None and parent['dir'] and 1 <= len(ulc.enc(path[-1])) <= 254 and all(k['name'] != path[-1] for k in parent['kids'])
        # an EMPTY file with both kinds of names is ONE inode for the writer and TWO after open (no
        # extent to recognise it by): reproduced separately, kept out of the chains
        if with_iso and exp and length > 0:
            self.isoctr += 1
            kw['iso_path'] = self.rng.choice(self.isodirs) + '/F%05d.;1' % self.isoctr
            self.isonames.append(kw['iso_path'])
        data = content(length, len(self.ops))
        try:
            self.iso.add_fp(io.BytesIO(data), length, **kw); ok = True
        except pe.PyCdlibException: ok = False
        assert ok == exp, ('add', path, ok, exp)
        self._log('add_fp', dict(kw, _data=data), ok)
        if ok:
            self.note_new_inodes(before, self.tree.next_ino)
            parent['kids'].append({'dir': False, 'name': path[-1], 'len': length, 'ino': self.tree.next_ino})
            self.tree.next_ino += 1
        else:
            del self.iso.inodes[before:]
        return ok

    def iso_only_dir(self):
        self.isoctr += 1
        d = self.rng.choice(self.isodirs) + '/D%05d' % self.isoctr
        if d.count('/') > 6: return
        self.iso.add_directory(iso_path=d); self.isodirs.append(d)
        self._log('add_directory', {'iso_path': d}, True)

    def iso_only_file(self, length):
        self.isoctr += 1
        before = len(self.iso.inodes)
        length = self.rng.choice([0, length]) if self.rng.random() < 0.3 else length
        data = content(length, 7000 + self.isoctr)
        kw = {'iso_path': self.rng.choice(self.isodirs) + '/G%05d.;1' % self.isoctr}
        self.isonames.append(kw['iso_path'])
        self.iso.add_fp(io.BytesIO(data), length, **kw)
        self._log('add_fp', dict(kw, _data=data), True)
        for ino in self.iso.inodes[before:]:
            self.inoid[id(ino)] = 2000 + len(self.inoid)
            self.keep.append(ino)


def iso_rmlink(run):
    """rm_hard_link(iso_path=...) of an ISO9660 name (of a mixed or an ISO9660-only file); the UDF tree stays"""
    if not run.isonames: return
    name = run.isonames.pop(run.rng.randrange(len(run.isonames)))
    try:
        run.iso.rm_hard_link(iso_path=name); ok = True
    except pe.PyCdlibException: ok = False
    run.calls.append(('rm_hard_link', {'iso_path': name}, ok))


def replay(iso, calls):
    for meth, kw, ok in calls:
        kw = dict(kw)
        before = len(iso.inodes)
        try:
            if meth == 'add_fp':
                data = kw.pop('_data')
                iso.add_fp(io.BytesIO(data), len(data), **kw)
            else:
                getattr(iso, meth)(**kw)
            got = True
        except pe.PyCdlibException:
            got = False
            del iso.inodes[before:]
        assert got == ok, ('replay on the opened object answers differently', meth, kw, got, ok)


def image(iso):
    out = io.BytesIO(); iso.write_fp(out); return out.getvalue()


def layout_obs(iso):
    """globals + nodes of udf_layout_cases.Run.observe, for any object (after force_consistency)"""
    part = iso.udf_main_descs.partitions[0]
    lv = iso.udf_logical_volume_integrity
    glob = [part.part_start_location, part.part_length, lv.size_tables[0], lv.logical_volume_impl_use.num_files,
            lv.logical_volume_impl_use.num_dirs, lv.logical_volume_contents_use.unique_id, iso.pvd.space_size,
            iso.udf_anchors[1].extent_location()]
    nodes = []

    def walk(fe):
        ds = fe.fi_descs
        nodes.append([1, fe.extent_location(), fe.desc_tag.tag_location, fe.unique_id, fe.info_len, fe.alloc_descs[0].log_block_num,
                      fe.alloc_descs[0].extent_length, fe.log_block_recorded] +
                     [d.desc_tag.tag_location for d in ds] + [d.icb.log_block_num for d in ds] + [d.extent_location() for d in ds])
        for d in ds[1:]:
            f = d.file_entry
            if d.is_dir(): walk(f)
            else:
                ads = []
                for a in f.alloc_descs: ads += [a.log_block_num, a.extent_length]
                nodes.append([0, f.extent_location(), f.desc_tag.tag_location, f.unique_id, f.info_len, f.log_block_recorded,
                              f.inode.extent_location() if f.inode.get_data_length() > 0 else -1] + ads)
    walk(iso.udf_root)
    return glob, nodes


def parsed_obs(iso):
    """the object graph of a freshly OPENED object, numbered as UdfParse.v numbers it"""
    ps = iso.udf_main_descs.partitions[0].part_start_location
    ino_ix = {id(ino): k for k, ino in enumerate(iso.inodes)}
    assert len(ino_ix) == len(iso.inodes)
    objs = {}
    rows = []
    findings = []

    def num(fe):
        if id(fe) not in objs: objs[id(fe)] = len(objs)
        return objs[id(fe)]

    def entry_obs(f):
        ads = []
        for a in f.alloc_descs: ads += [a.log_block_num, a.extent_length]
        par = -1 if f.parent is None else objs.get(id(f.parent), -2)
        ino = -1 if f.inode is None else ino_ix.get(id(f.inode), -2)
        return [num(f), f.extent_location() - ps, 1 if f.is_dir() else 0, f.info_len, par, ino, len(f.alloc_descs)] + ads

    root = iso.udf_root
    rows.append([3] + entry_obs(root))
    queue = [root]
    while queue:
        fe = queue.pop(0)
        rows.append([1, objs[id(fe)], fe.extent_location() - ps, len(fe.fi_descs)])
        for d in fe.fi_descs:
            row = [0, 1 if d.is_dir() else 0, 1 if d.is_parent() else 0, d.icb.log_block_num, d.extent_location() - ps]
            f = d.file_entry
            if f is None: row.append(0)
            else:
                if f.file_ident is not d: findings.append(('file_entry.file_ident is not the FID', d.fi))
                row += [1] + entry_obs(f)
                if d.is_dir() and not d.is_parent(): queue.append(f)
            rows.append(row + list(d.fi))
    ino0 = []
    seen_udf_only = False
    for ino in iso.inodes:
        links = [r for r, _ in ino.linked_records if isinstance(r, udfmod.UDFFileEntry)]
        isolinks = [r for r, _ in ino.linked_records if isinstance(r, drmod.DirectoryRecord)]
        ext, length = ino.extent_location(), ino.get_data_length()
        if isolinks:
            assert not seen_udf_only, 'an ISO9660 inode behind a UDF-only inode'
            ino0.append((ext if length > 0 else 0, ext, length))
        else: seen_udf_only = True
        rows.append([2, ext, length, ino.num_udf] + [objs.get(id(r), -2) for r in links])
    return rows, ino0, findings


def one_history(seed):
    """-> (list of cases, list of findings)"""
    rng = random.Random(seed)
    kind = seed % 10
    run = PRun(rng, mixed=kind in (7, 8))
    if kind in (0, 1): ulc.sc_random(run, rng.randint(5, 40))
    elif kind == 2: ulc.sc_random(run, rng.randint(3, 12)); ulc.sc_links(run)
    elif kind == 3: ulc.sc_boundary(run)
    elif kind == 4: ulc.sc_deep(run)
    elif kind == 5: ulc.sc_links(run)
    elif kind == 6: ulc.sc_boundary(run); ulc.sc_random(run, rng.randint(0, 15))
    elif kind in (7, 8): ulc.sc_random(run, rng.randint(5, 35))
    else:                                            # empty files next to each other, wide names
        for k in range(rng.randint(3, 9)): run.add(['e%d' % k], 0)
        run.mkdir(['Łd']); run.add(['Łd', 'ЖΩ中'], 0); run.add(['Łd', 'z'], 0); run.link(['e0'], ['Łd', 'e0'])
        run.link(['e0'], ['e0b']); run.link(['e1'], ['Łd', 'Ωe1']); ulc.sc_random(run, rng.randint(0, 12))
    cases, findings = [], []
    nstages = 1 + (1 if seed % 3 != 0 else 0) + (1 if seed % 4 == 1 else 0)
    A = run.iso
    cur = A                      # the object whose image is examined in this stage
    for stage in range(nstages):
        base = run.observe()                      # layout of A (forces consistency on A)
        gA, nA = layout_obs(A)
        imgA = image(A)
        if stage > 0:
            imgcur = image(cur)
            if imgcur != imgA:
                findings.append(('stage %d: object edited after open writes other bytes than the original object' % stage,
                                 first_diff(imgcur, imgA)))
        else: imgcur = imgA
        B = pycdlib.PyCdlib()
        try:
            B.open_fp(io.BytesIO(imgcur))
        except Exception as err:                     # pycdlib refuses (or crashes on) what it wrote
            findings.append(('stage %d: open raises' % stage, type(err).__name__, str(err)[:200]))
            break
        rows, ino0, f2 = parsed_obs(B)
        findings += [('stage %d' % stage,) + x for x in f2]
        cases.append((list(base[0]), base[1], ino0, rows))
        B.force_consistency()
        gB, nB = layout_obs(B)
        if (gB, nB) != (gA, nA):
            findings.append(('stage %d: layout forced on the opened object differs from the written one' % stage, diff_rows([gA] + nA, [gB] + nB)))
        imgB = image(B)
        if imgB != imgcur:
            findings.append(('stage %d: opened object writes other bytes' % stage, first_diff(imgB, imgcur)))
        if stage + 1 < nstages:
            ncalls = len(run.calls)
            x = rng.random()
            if x < 0.6: ulc.sc_random(run, rng.randint(2, 14), p_bad=0.15)
            elif x < 0.8: ulc.sc_links(run) if seed % 10 not in (5, 2) else ulc.sc_random(run, 8)
            else:
                files = run.tree.files()
                for p in files[:rng.randint(1, 6)]:
                    if run.tree.find(p) is not None: run.rmlink(p)
                for k in range(rng.randint(0, 3)):
                    d = rng.choice(run.tree.dirs()); run.add(d + [run.fresh(d, 1, 30)], small_len(rng))
            if run.mixed and rng.random() < 0.6:
                for _ in range(rng.randint(1, 3)): iso_rmlink(run)
            try:
                replay(B, run.calls[ncalls:])
            except AssertionError as err:
                findings.append(('stage %d: the opened object answers an edit differently' % stage, repr(err.args)[:300]))
                break
            cur = B
    return cases, findings


def first_diff(a, b):
    if len(a) != len(b): return ('lengths', len(a), len(b))
    for k in range(0, len(a), 2048):
        if a[k:k + 2048] != b[k:k + 2048]:
            o = next(i for i in range(2048) if a[k + i] != b[k + i])
            return ('block', k // 2048, 'offset', o, a[k + o:k + o + 8].hex(), b[k + o:k + o + 8].hex())
    return None


def diff_rows(a, b):
    out = []
    for k in range(max(len(a), len(b))):
        x = a[k] if k < len(a) else None; y = b[k] if k < len(b) else None
        if x != y: out.append((k, x, y))
    return out[:4]


FINDINGS = []


def cases(seed, n):
    out = []
    k = 0
    while len(out) < n:
        cs, fs = one_history(seed * 100000 + k)
        for f in fs: FINDINGS.append((seed * 100000 + k, f))
        out += cs
        k += 1
    return out[:n]


def zl(l): return '[' + '; '.join(str(x) for x in l) + ']'


def render(case):
    ops, (meta, ifiles), ino0, rows = case
    return '([%s], (%d, [%s]), [%s], [%s])' % ('; '.join(ulc.render_op(o) for o in ops), meta,
                                               '; '.join('(%d%%nat, %d)' % x for x in ifiles),
                                               '; '.join('(%d, %d, %d)' % x for x in ino0),
                                               '; '.join(zl(r) for r in rows))


def main(argv):
    import subprocess
    seed = int(argv[1]); n = int(argv[2])
    work = argv[3] if len(argv) > 3 else '/var/tmp/udfparse'
    os.makedirs(work, exist_ok=True)
    cs = cases(seed, n)
    print('cases', len(cs), 'ops', sum(len(c[0]) for c in cs), 'rows', sum(len(c[3]) for c in cs),
          'mixed', sum(1 for c in cs if c[2]), 'dirs', sum(1 for c in cs for r in c[3] if r[0] == 1),
          'multi-block areas', sum(1 for c in cs for r in c[3] if r[0] == 0 and r[2] == 0 and r[5] == 1 and r[8] == 1 and r[9] > 2048),
          'shared inodes', sum(1 for c in cs for r in c[3] if r[0] == 2 and r[3] > 1),
          'findings', len(FINDINGS))
    for f in FINDINGS: print('FINDING', f)
    shard = 25
    for ix in range(0, n, shard):
        txt = ['From Coq Require Import ZArith List Bool.', 'Import ListNotations.',
               'From PV.Model Require Import UdfLayout UdfParse.', 'Local Open Scope Z_scope.',
               'Definition cases : list udfparse_case := [\n%s].' % ';\n'.join(render(c) for c in cs[ix:ix + shard]),
               'Eval vm_compute in bad_udfparse_cases %d cases.' % ix]
        path = os.path.join(work, 'UdfParseCases_%d_%d.v' % (seed, ix))
        open(path, 'w').write('\n'.join(txt) + '\n')
        out = subprocess.run(['coqc', '-q', '-Q', '/verif/coq/theories', 'PV', path], capture_output=True, text=True, timeout=1800, cwd=work)
        print(ix, out.returncode, out.stdout.strip()[-300:], out.stderr.strip()[-500:])


if __name__ == '__main__':
    main(sys.argv)
