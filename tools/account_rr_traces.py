#!/venv/bin/python
"""Differential test of coq/theories/Model/AccountRR.v against the real pycdlib (Rock Ridge images).

Edit histories (add_fp / add_directory / add_symlink / rm_file / rm_directory with Rock Ridge names, valid and
invalid) are run on `PyCdlib.new(interchange_level=3, rock_ridge=VERSION)`; after EVERY operation the tool
records

    accepted?, [pvd.space_size, pvd.path_tbl_size, pvd.path_table_num_extents, sum of directory
    data_lengths, len(iso.inodes)], [[(e.offset, e.length) for e in blk._entries] for blk in pvd.rr_ce_blocks],
    the end of the last extent after a forced _reshuffle_extents(), [blk.extent_location() for blk in
    pvd.rr_ce_blocks]

and AccountRR.bad_accountrr_cases evaluates the model on the same operations.

API (deterministic from the seed):  cases(seed, n) -> list of case dicts;  render(case) -> Coq term of type
AccountRR.rcase.   Command line:

    PYTHONPATH=/repo /venv/bin/python /verif/tools/account_rr_traces.py OUTDIR SEED N [SHARD] [fx]

writes OUTDIR/arr_<seed>_<k>.v, SHARD (default 50) histories each, every file ending in
`Eval vm_compute in bad_accountrr_cases_gen <fx> 0 cases.`  (must print `= []`); check with
    cd /verif/coq && coqc -q -Q theories PV -w -notation-overridden OUTDIR/arr_<seed>_<k>.v
`fx` (default true = the current code) ; `false` evaluates the model of the code before rm_file released the
continuation entry of a symlink.  The library is imported from $PYCDLIB_TREE (default /repo).
"""
import collections
import io
import os
import random
import sys

sys.path.insert(0, os.environ.get('PYCDLIB_TREE', '/repo'))   # the tree under test
import pycdlib  # noqa: E402
from pycdlib import pycdlibexception  # noqa: E402

BLOCK = 2048
VERSIONS = {'1.09': 109, '1.10': 110, '1.12': 112}


def cdiv(a, b):
    return -(-a // b)


def observe(iso, ok):
    q = collections.deque([iso.pvd.root_directory_record()])
    tot = 0
    dirs = []
    while q:
        d = q.popleft()
        tot += d.data_length
        dirs.append(d)
        for c in d.children[2:]:
            if c.is_dir():
                q.append(c)
    iso._reshuffle_extents()  # what write_fp() / force_consistency() do first
    end = 16 + 1 + 1 + 1 + 2 * iso.pvd.path_table_num_extents
    for d in dirs:
        end = max(end, d.extent_location() + cdiv(d.data_length, BLOCK))
    for blk in iso.pvd.rr_ce_blocks:
        if blk.extent_location() >= 0:
            end = max(end, blk.extent_location() + 1)
    rr = iso.pvd.root_directory_record().children[0].rock_ridge
    if rr is not None and rr.dr_entries.ce_record is not None:
        end = max(end, rr.dr_entries.ce_record.bl_cont_area + 1)
    for ino in iso.inodes:
        if ino.get_data_length() > 0:
            end = max(end, ino.extent_location() + cdiv(ino.get_data_length(), BLOCK))
    return (ok,
            [iso.pvd.space_size, iso.pvd.path_tbl_size, iso.pvd.path_table_num_extents, tot, len(iso.inodes)],
            [[(e.offset, e.length) for e in blk._entries] for blk in iso.pvd.rr_ce_blocks],
            end,
            [blk.extent_location() for blk in iso.pvd.rr_ce_blocks])


def ipath(comps):
    return '/' + '/'.join(x.decode('latin-1') for x in comps)


class Runner:
    """Runs operations on pycdlib; ops are tuples
       ('AddFile', dir, name, rr, len) | ('AddDir', dir, name, rr) | ('AddSymlink', dir, name, rr, target)
       | ('RmFile', dir, name) | ('RmDir', path)   with dir/path = tuple of bytes, name = bytes, rr/target = str."""

    def __init__(self, version):
        self.version = version
        self.iso = pycdlib.PyCdlib()
        self.iso.new(interchange_level=3, rock_ridge=version)
        self.first = observe(self.iso, True)
        self.ops, self.obs = [], []
        self.error = None

    def do(self, op):
        kind = op[0]
        iso = self.iso
        if kind == 'AddFile':
            _, d, nm, rr, ln = op

            def call():
                iso.add_fp(io.BytesIO(b''), ln, ipath(d + (nm,)), rr_name=rr)
        elif kind == 'AddDir':
            _, d, nm, rr = op

            def call():
                iso.add_directory(ipath(d + (nm,)), rr_name=rr)
        elif kind == 'AddSymlink':
            _, d, nm, rr, tg = op

            def call():
                iso.add_symlink(symlink_path=ipath(d + (nm,)), rr_symlink_name=rr, rr_path=tg)
        elif kind == 'RmFile':
            _, d, nm = op

            def call():
                iso.rm_file(ipath(d + (nm,)))
        else:
            _, p = op

            def call():
                iso.rm_directory(ipath(p))
        try:
            call()
            ok = True
        except pycdlibexception.PyCdlibInvalidInput:
            ok = False
        self.ops.append(op)
        self.obs.append(observe(iso, ok))
        return ok

    def case(self, label):
        return {'label': label, 'version': self.version, 'first': self.first, 'ops': list(self.ops),
                'obs': list(self.obs)}


# ---- rendering ----------------------------------------------------------------------------------------
def coq_bytes(b):
    return '[' + '; '.join(str(x) for x in b) + ']'


def coq_path(comps):
    return '[' + '; '.join(coq_bytes(c) for c in comps) + ']'


def coq_str(s):
    return coq_bytes(s.encode('utf-8'))


def coq_op(op):
    kind = op[0]
    if kind == 'AddFile':
        return 'RAddFile %s %s %s (%d)' % (coq_path(op[1]), coq_bytes(op[2]), coq_str(op[3]), op[4])
    if kind == 'AddDir':
        return 'RAddDir %s %s %s' % (coq_path(op[1]), coq_bytes(op[2]), coq_str(op[3]))
    if kind == 'AddSymlink':
        return 'RAddSymlink %s %s %s %s' % (coq_path(op[1]), coq_bytes(op[2]), coq_str(op[3]), coq_str(op[4]))
    if kind == 'RmFile':
        return 'RRmFile %s %s' % (coq_path(op[1]), coq_bytes(op[2]))
    return 'RRmDir %s' % coq_path(op[1])


def coq_obs(o):
    ok, pr, blocks, end, exts = o
    bl = '[' + '; '.join('[' + '; '.join('(%d, %d)' % e for e in b) + ']' for b in blocks) + ']'
    return '(%s, %s, %s, %d, [%s])' % ('true' if ok else 'false', coq_bytes(pr), bl, end,
                                       '; '.join('(%d)' % x for x in exts))


def render(case):
    return '(%d, %s,\n  [%s],\n  [%s])' % (VERSIONS[case['version']], coq_obs(case['first']),
                                           ';\n   '.join(coq_op(o) for o in case['ops']),
                                           ';\n   '.join(coq_obs(o) for o in case['obs']))


# ---- generators ------------------------------------------------------------------------------------------
ALPHA = b'ABCDEFGHIJKLMNOPQRSTUVWXYZ0123456789_'


def iso_file_name(rng, n=None):
    n = n or rng.choice([1, 3, 8, 8, 12, 30, 60, 120, 180, 186, 187, 188, 190])
    base = bytes(rng.choice(ALPHA) for _ in range(n))
    r = rng.random()
    if r < 0.55:
        return base + b'.;1'
    if r < 0.9:
        return base + b'.' + bytes(rng.choice(ALPHA) for _ in range(rng.choice([1, 3]))) + b';1'
    if r < 0.95:
        return base.lower() + b';1'        # invalid characters
    return base


def iso_dir_name(rng):
    n = rng.choice([1, 2, 8, 8, 31, 100, 190, 192, 193, 194])
    return bytes(rng.choice(ALPHA) for _ in range(n))


def rr_text(rng, n):
    letters = 'abcdefghijklmnopqrstuvwxyz-_.0123456789'
    s = ''.join(rng.choice(letters) for _ in range(n))
    if n > 3 and rng.random() < 0.1:
        s = s[:-2] + 'é'               # two bytes in utf-8
    return s


def rr_len(rng):
    return rng.choice([1, 2, 8, 20, 60, 100, 120, 140, 150, 160, 170, 175, 180, 200, 240, 249, 250, 250, 400, 700,
                       2100, 2150, 2200, 3000])   # the last ones need more than one continuation block


def target_text(rng):
    kind = rng.random()
    if kind < 0.25:
        comps = [rr_text(rng, rng.choice([1, 2, 5])) for _ in range(rng.choice([1, 3, 20, 60, 100]))]
    elif kind < 0.5:
        comps = [rr_text(rng, rng.choice([30, 100, 249, 250, 251, 300]))
                 for _ in range(rng.choice([1, 1, 2]))]
    elif kind < 0.75:
        comps = [rng.choice(['.', '..', '', rr_text(rng, rng.choice([1, 8, 40]))])
                 for _ in range(rng.choice([2, 5, 30, 80]))]
    else:
        comps = [rr_text(rng, rng.choice([1, 10, 90])) for _ in range(rng.choice([1, 4, 8]))]
    s = '/'.join(comps)
    if rng.random() < 0.3:
        s = '/' + s
    if rng.random() < 0.1:
        s = s + '/'
    return s[:rng.choice([300, 300, 1200, 4000])] or 'x'


def random_history(run, rng, nops, flavour):
    """flavour 0: mixed; 1: long Rock Ridge names (many continuation entries); 2: symlinks; 3: directories."""
    dirs = [()]
    files = []
    for _ in range(nops):
        r = rng.random()
        if flavour == 3:
            kind = 'adddir' if r < 0.5 else 'rmdir' if r < 0.7 else 'addfile' if r < 0.85 else 'rmfile'
        elif flavour == 2:
            kind = 'addsym' if r < 0.5 else 'rmfile' if r < 0.8 else 'adddir' if r < 0.9 else 'addfile'
        else:
            kind = ('addfile' if r < 0.35 else 'addsym' if r < 0.5 else 'adddir' if r < 0.62
                    else 'rmfile' if r < 0.88 else 'rmdir')
        bogus = rng.random() < 0.1
        longrr = flavour == 1 or rng.random() < 0.4
        if kind in ('addfile', 'addsym'):
            d = rng.choice(dirs) if not bogus else rng.choice(dirs) + (b'NOPE',)
            nm = iso_file_name(rng)
            if files and rng.random() < 0.08:
                d, nm = rng.choice(files)                      # duplicate
            elif files and rng.random() < 0.04:
                fd, fn = rng.choice(files)
                d = fd + (fn,)                                 # a file as the parent
            rr = rr_text(rng, rr_len(rng) if longrr else rng.choice([1, 5, 12]))
            if rng.random() < 0.03:
                rr = rng.choice(['', 'a/b'])
            if kind == 'addfile':
                ln = rng.choice([0, 0, 1, 5, 2047, 2048, 2049, 4096, 100000])
                if run.do(('AddFile', d, nm, rr, ln)):
                    files.append((d, nm))
            else:
                if run.do(('AddSymlink', d, nm, rr, target_text(rng))):
                    files.append((d, nm))
        elif kind == 'adddir':
            cands = [x for x in dirs if len(x) < 7]
            d = rng.choice(cands) if not bogus else rng.choice(cands) + (b'NOPE',)
            if len(d) >= 7:
                d = ()
            nm = iso_dir_name(rng)
            if rng.random() < 0.05:
                nm = b'RR_MOVED'
            if rng.random() < 0.08 and len(dirs) > 1:
                dd = rng.choice(dirs[1:])
                d, nm = dd[:-1], dd[-1]                        # duplicate
            rr = rr_text(rng, rr_len(rng) if longrr else rng.choice([1, 5, 12]))
            if run.do(('AddDir', d, nm, rr)):
                dirs.append(d + (nm,))
        elif kind == 'rmfile':
            if files and not bogus:
                d, nm = rng.choice(files)
            elif len(dirs) > 1 and rng.random() < 0.5:
                dd = rng.choice(dirs[1:])
                d, nm = dd[:-1], dd[-1]                        # a directory: refused
            else:
                d, nm = rng.choice(dirs), b'MISSING'
            if run.do(('RmFile', d, nm)):
                files.remove((d, nm))
        else:
            if rng.random() < 0.05:
                p = ()
            elif files and rng.random() < 0.1:
                d, nm = rng.choice(files)
                p = d + (nm,)                                  # a file: refused
            elif bogus or len(dirs) == 1:
                p = rng.choice(dirs) + (b'MISSING',)
            else:
                p = rng.choice(dirs[1:])
            if run.do(('RmDir', p)):
                dirs.remove(p)


def celen_of(version, op, pre=()):
    """len_cont_area the library gives the record of `op` in a fresh image after the operations `pre`
    (0 = no continuation entry, None = refused)."""
    r = Runner(version)
    for p in pre:
        r.do(p)
    before = sum(e[1] for b in (r.obs[-1][2] if r.obs else []) for e in b)
    if not r.do(op):
        return None
    return sum(e[1] for b in r.obs[-1][2] for e in b) - before


def fill_scenario(run, rng, target, kind):
    """Continuation entries that fill one 2048-byte block up to `target` bytes (2048: exactly; 2047: one byte
    short; 2049: one byte too many, so the last one opens a second block), then removals in the middle and adds
    that reuse the gap / do not fit."""
    version = run.version
    d = ()
    pre = ()
    if kind == 'dir':
        pre = (('AddDir', (), b'SUB', 'sub'),)
        run.do(pre[0])
        d = (b'SUB',)

    def mk(i, n):
        nm = b'F%04d.;1' % i
        if kind == 'sym':
            return ('AddSymlink', d, nm, 'l%d' % i, 'x' * n)
        if kind == 'dirs':
            return ('AddDir', d, b'D%04d' % i, 'n' * n)
        return ('AddFile', d, nm, 'n' * n, rng.choice([0, 1, 3000]))

    small = rng.choice([176, 180, 200, 230])
    size_small = celen_of(version, mk(0, small), pre)
    assert size_small and size_small > 0, (version, kind, small, size_small)
    used = 0
    i = 0
    names = []
    while target - used - size_small >= 2 * size_small:
        run.do(mk(i, small))
        names.append(i)
        used += size_small
        i += 1
    # two more entries: one small and one of exactly the remaining size
    rest = target - used - size_small
    run.do(mk(i, small))
    names.append(i)
    i += 1
    n = small
    while True:
        c = celen_of(version, mk(i, n), pre)
        if c is None or c >= rest:
            break
        n += 1
    run.do(mk(i, n))
    names.append(i)
    i += 1
    # one more: must open (or go to) the second block
    run.do(mk(i, small))
    names.append(i)
    i += 1

    def rm(j):
        if kind == 'dirs':
            run.do(('RmDir', d + (b'D%04d' % j,)))
        else:
            run.do(('RmFile', d, b'F%04d.;1' % j))
    victims = rng.sample(names[1:-3], min(3, len(names[1:-3])))
    for j in victims[:2]:
        rm(j)
    run.do(mk(i, small))            # reuses the first gap
    i += 1
    run.do(mk(i, small + 1))        # one byte too long for a gap of the small size
    i += 1
    run.do(mk(i, small - 1))        # shorter than the gap
    i += 1
    rm(names[-1])                   # the entry of the second block
    rm(i - 2)
    for j in victims[2:]:
        rm(j)
    rm(names[0])                    # offset 0 is free now
    run.do(mk(i, small))
    i += 1
    if rng.random() < 0.5:
        for j in names:
            rm(j)                   # some are gone already: refused


def moved_scenario(run, rng):
    """A user-made directory called RR_MOVED accepts duplicate names."""
    run.do(('AddDir', (), b'RR_MOVED', 'm'))
    for k in range(3):
        run.do(('AddFile', (b'RR_MOVED',), b'A.;1', 'n' * rng.choice([3, 200, 250]), k))
        run.do(('AddDir', (b'RR_MOVED',), b'SUB', 'd' * rng.choice([3, 200])))
    run.do(('AddSymlink', (b'RR_MOVED',), b'A.;1', 'l', 'y' * 300))
    for _ in range(3):
        run.do(('RmFile', (b'RR_MOVED',), b'A.;1'))
        run.do(('RmDir', (b'RR_MOVED', b'SUB')))
    run.do(('RmFile', (b'RR_MOVED',), b'A.;1'))
    run.do(('RmDir', (b'RR_MOVED',)))


def deep_scenario(run, rng):
    """Directories down to depth 7 with long names, files and symlinks at depth 8 (no depth check with RR)."""
    p = ()
    for k in range(7):
        run.do(('AddDir', p, b'D%d' % k, rr_text(rng, rng.choice([3, 180, 250]))))
        p = p + (b'D%d' % k,)
    run.do(('AddFile', p, b'DEEP.;1', rr_text(rng, 240), 5000))
    run.do(('AddSymlink', p, b'LINK.;1', 'link', '../' * 60 + 'x'))
    run.do(('RmFile', p, b'LINK.;1'))
    run.do(('RmFile', p, b'DEEP.;1'))
    while p:
        run.do(('RmDir', p))
        p = p[:-1]


def cases(seed, n):
    """n histories, deterministic from the seed."""
    out = []
    for k in range(n):
        rng = random.Random(seed * 1000003 + k)
        version = rng.choice(['1.09', '1.09', '1.12', '1.12', '1.10'])
        run = Runner(version)
        sel = k % 10
        if sel == 0:
            tgt = rng.choice([2048, 2047, 2049])
            kind = rng.choice(['file', 'file', 'sym', 'dir', 'dirs'])
            fill_scenario(run, rng, tgt, kind)
            label = 'fill %d %s' % (tgt, kind)
        elif sel == 1 and k % 20 == 1:
            moved_scenario(run, rng)
            label = 'rr_moved'
        elif sel == 1:
            deep_scenario(run, rng)
            label = 'deep'
        else:
            flavour = [0, 1, 2, 3, 0, 1, 1, 2][sel - 2]
            nops = rng.choice([15, 25, 40, 60])
            random_history(run, rng, nops, flavour)
            label = 'random flavour %d, %d ops' % (flavour, nops)
        out.append(run.case('seed %d #%d: %s (%s)' % (seed, k, label, version)))
    return out


def write_shard(path, cs, fx):
    with open(path, 'w') as f:
        f.write('(* GENERATED by /verif/tools/account_rr_traces.py: what the real pycdlib (/repo) reported after every\n'
                '   operation of %d Rock Ridge edit histories; Model/AccountRR.v must reproduce all of it. *)\n' % len(cs))
        f.write('From Coq Require Import ZArith List Bool.\nFrom PV.Model Require Import AccountRR.\n')
        f.write('Import ListNotations.\nLocal Open Scope Z_scope.\n\n')
        f.write('Definition cases : list rcase :=\n[')
        f.write(';\n'.join('(* %s *)\n %s' % (c['label'], render(c)) for c in cs))
        f.write('].\n\nEval vm_compute in bad_accountrr_cases_gen %s 0 cases.\n' % fx)


def main():
    outdir, seed, n = sys.argv[1], int(sys.argv[2]), int(sys.argv[3])
    shard = int(sys.argv[4]) if len(sys.argv) > 4 else 50
    fx = sys.argv[5] if len(sys.argv) > 5 else 'true'
    os.makedirs(outdir, exist_ok=True)
    cs = cases(seed, n)
    nops = sum(len(c['ops']) for c in cs)
    nacc = sum(1 for c in cs for o in c['obs'] if o[0])
    slack = [(c['label'], i) for c in cs for i, o in enumerate(c['obs']) if o[1][0] != o[3]]
    for k in range(0, len(cs), shard):
        write_shard(os.path.join(outdir, 'arr_%d_%d.v' % (seed, k // shard)), cs[k:k + shard], fx)
    print('%d histories, %d operations, %d accepted; space_size != end of last extent after %d operations'
          % (len(cs), nops, nacc, len(slack)))
    for lab, i in slack[:10]:
        print('   slack:', lab, 'operation', i)


if __name__ == '__main__':
    main()
