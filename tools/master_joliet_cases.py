#!/venv/bin/python
"""Correspondence cases for coq/theories/Model/MasterJoliet.v (the JOLIET directory area and path tables of an
ISO9660+Joliet image, the ISO9660 directory area of the same image, the shared file data sectors).

A case is an edit HISTORY on `iso.new(interchange_level=3, joliet=3)`:
    ('dir', iso_path|None, joliet_path|None)           add_directory
    ('file', length, iso_path|None, joliet_path|None)  add_fp
    ('link', (ns, old_path), (ns, new_path))           add_hard_link   (ns = 'i' ISO9660 / 'j' Joliet)
    ('rmlink', ns, path)                               rm_hard_link
    ('rmfile', ns, path)                               rm_file (every name of the content, both hierarchies)
    ('rmdir', iso_path|None, joliet_path|None)         rm_directory
    ('write',)                                         an intermediate mastering
Only accepted operations are generated (the generator keeps its own picture of both namespaces).

`render(case)` replays the history on the real pycdlib with time.time() pinned, takes the STATE from the library's
object graph just before the write (both trees: identifiers, directory data_lengths, the inode each file record
points to; the inode table; both path table sizes / extent counts; both volume sizes -- no extents), masters the
image into memory, and with a tiny parser of its own
  * reads the supplementary volume descriptor at sector 17 (space size, path table size, L and M locations, root
    record) and the root record of the primary one at sector 16,
  * cuts out the blocks of the Joliet L and M path tables,
  * cuts out the blocks of every Joliet directory extent, breadth first from the SVD root record, and of every
    ISO9660 directory extent from the PVD root record.
It also turns the generator's own picture of the Joliet namespace into a tree of Unicode names (code points), kinds
and lengths, children sorted by their UTF-16BE bytes.  The Coq term has type MasterJoliet.mj_case;
`MasterJoliet.bad_masterjoliet_cases 0 cases` lists the cases where the model does not produce exactly these bytes,
where the independent reader `read_joliet` run on the REAL bytes does not return the expected tree (model view and
the generator's Unicode picture), where the SVD values differ, or where AccountNs.nlayout disagrees.

    cases(seed, n) -> n histories (boundary ones first, then random ones drawn from `seed`)
    render(case)   -> Coq term

usage: /venv/bin/python /verif/tools/master_joliet_cases.py SEED N [OUTDIR] [SHARD]
       (writes shards of <= SHARD (default 25) cases, S<k>.v; check each with
        cd /verif/coq && coqc -q -Q theories PV OUTDIR/S<k>.v  -- it must print `= []`)
"""
import io
import os
import random
import struct
import sys
import time

sys.path.insert(0, os.environ.get('VERIF_REPO', '/repo'))
import pycdlib  # noqa: E402

BLOCK = 2048
CLOCK = 1700000000.0

# ---------------------------------------------------------------------------------------- names

B36 = '0123456789ABCDEFGHIJKLMNOPQRSTUVWXYZ'


def b36(i, width):
    out = ''
    for _ in range(width):
        out = B36[i % 36] + out
        i //= 36
    return out


def ifile(i, ln=12):
    """A level-3 ISO9660 file identifier of exactly `ln` >= 9 bytes."""
    return 'F' * (ln - 9) + '%06d' % (i % 1000000) + '.;1'


def idir(i, ln=4):
    if ln <= 4:
        return b36(i, ln)
    return 'D' * (ln - 4) + b36(i, 4)


ALPHABETS = [
    'abcdefghijklmnopqrstuvwxyz',
    'ABCDEFGHIJKLMNOPQRSTUVWXYZ',
    'aAbBcC',
    'abc xyz.-_+!',
    'àéîõüßÅØ',                 # Latin-1
    'αβγδΩЖдя',                 # Greek, Cyrillic
    '中文日本語한글',                       # CJK, Hangul (3 UTF-8 bytes each)
    'Ā†‡€�￿ÿ\u0001\u001f\u007f',  # odd corners of the BMP
]


def utf8len(s):
    return len(s.encode('utf-8'))


def jname(rng, units=None, alpha=None):
    """A Joliet name of `units` UCS-2 units (BMP only) whose UTF-8 form is at most 64 bytes."""
    a = ALPHABETS[alpha] if alpha is not None else rng.choice(ALPHABETS)
    if units is None:
        units = rng.choice([1, 1, 2, 3, 5, 8, 13, 21, 32, 64])
    s = ''
    while len(s) < units:
        c = rng.choice(a)
        if utf8len(s + c) > 64:
            break
        s += c
    if s in ('.', '..'):
        s = 'x' + s
    return s


def jfix(k, units):
    """A deterministic ASCII Joliet name of exactly `units` units."""
    tail = '%04d' % k
    if units <= 4:
        return tail[-units:] if units < 4 else tail
    return 'n' * (units - 4) + tail


# ---------------------------------------------------------------------------------------- histories

class Gen:
    """The generator's own picture of both namespaces: path -> 'd' or inode key."""

    def __init__(self):
        self.ns = {'i': {'': 'd'}, 'j': {'': 'd'}}
        self.ino = {}           # key -> length
        self.nextino = 0
        self.ops = []

    def parent_ok(self, ns, path):
        par = path.rsplit('/', 1)[0]
        return self.ns[ns].get(par) == 'd' and path not in self.ns[ns]

    def add_dir(self, ip, jp):
        if ip is not None and not self.parent_ok('i', ip):
            return False
        if jp is not None and not self.parent_ok('j', jp):
            return False
        if ip is None and jp is None:
            return False
        if ip is not None:
            self.ns['i'][ip] = 'd'
        if jp is not None:
            self.ns['j'][jp] = 'd'
        self.ops.append(('dir', ip, jp))
        return True

    def add_file(self, ln, ip, jp):
        if ip is not None and not self.parent_ok('i', ip):
            return False
        if jp is not None and not self.parent_ok('j', jp):
            return False
        if ip is None and jp is None:
            return False
        k = self.nextino
        self.nextino += 1
        self.ino[k] = ln
        if ip is not None:
            self.ns['i'][ip] = k
        if jp is not None:
            self.ns['j'][jp] = k
        self.ops.append(('file', ln, ip, jp))
        return True

    def link(self, ons, old, nns, new):
        k = self.ns[ons].get(old)
        if k is None or k == 'd' or not self.parent_ok(nns, new):
            return False
        self.ns[nns][new] = k
        self.ops.append(('link', (ons, old), (nns, new)))
        return True

    def rmlink(self, ns, path):
        k = self.ns[ns].get(path)
        if k is None or k == 'd':
            return False
        del self.ns[ns][path]
        self.ops.append(('rmlink', ns, path))
        return True

    def rmfile(self, ns, path):
        k = self.ns[ns].get(path)
        if k is None or k == 'd':
            return False
        for n in ('i', 'j'):
            for p in [p for p, v in self.ns[n].items() if v == k]:
                del self.ns[n][p]
        self.ops.append(('rmfile', ns, path))
        return True

    def empty_dir(self, ns, path):
        return path != '' and self.ns[ns].get(path) == 'd' and not any(p.startswith(path + '/') for p in self.ns[ns])

    def rmdir(self, ip, jp):
        if ip is not None and not self.empty_dir('i', ip):
            return False
        if jp is not None and not self.empty_dir('j', jp):
            return False
        if ip is None and jp is None:
            return False
        if ip is not None:
            del self.ns['i'][ip]
        if jp is not None:
            del self.ns['j'][jp]
        self.ops.append(('rmdir', ip, jp))
        return True

    def write(self):
        self.ops.append(('write',))

    def case(self, name):
        return (name, self.ops, shadow_tree(self.ns['j'], self.ino))


def shadow_tree(jns, ino):
    """('D', name, kids) | ('F', name, len); children sorted by UTF-16BE bytes"""
    def build(path, name):
        v = jns[path]
        if v != 'd':
            return ('F', name, ino[v])
        kids = [p for p in jns if p != '' and p.rsplit('/', 1)[0] == path and p != path]
        kids.sort(key=lambda p: p.rsplit('/', 1)[1].encode('utf-16_be'))
        return ('D', name, [build(p, p.rsplit('/', 1)[1]) for p in kids])
    return build('', '')


LENS = [0, 1, 2047, 2048, 2049, 5000]


def h_same(g):
    g.add_dir('/A', '/a')
    g.add_dir('/A/B', '/a/b')
    g.add_file(3, '/A/' + ifile(1), '/a/one.txt')
    g.add_file(2049, '/A/B/' + ifile(2), '/a/b/two.txt')
    g.add_file(0, '/' + ifile(3), '/empty')
    g.add_file(2048, '/' + ifile(4), '/Block.bin')


def h_only(g):
    """Joliet-only and ISO9660-only files and directories"""
    g.add_dir('/ISOONLY', None)
    g.add_dir(None, '/joliet only')
    g.add_file(10, '/ISOONLY/' + ifile(1), None)
    g.add_file(4097, None, '/joliet only/j.dat')
    g.add_file(0, None, '/joliet only/zero')
    g.add_file(7, '/' + ifile(2), None)
    g.add_dir(None, '/joliet only/deeper')
    g.add_file(1, None, '/joliet only/deeper/x')


def h_shapes(g):
    """ISO9660 flat, Joliet deep (10 levels: no depth rule in Joliet); and the other way round"""
    p = ''
    for d in range(10):
        p = p + '/level%d' % d
        g.add_dir(None, p)
        g.add_file(d * 700, '/' + ifile(d), p + '/f%d' % d)
    q = ''
    for d in range(7):
        q = q + '/' + idir(d, 1 + d % 3)
        g.add_dir(q, None)
    q6 = q.rsplit('/', 1)[0]
    for d in range(5):
        g.add_file(100 + d, q6 + '/' + ifile(50 + d) if d < 3 else '/' + ifile(60 + d), '/flat%d' % d)


def h_links(g):
    g.add_dir('/D', '/d')
    g.add_file(3000, '/' + ifile(1), '/first')
    g.link('i', '/' + ifile(1), 'j', '/d/second')
    g.link('j', '/first', 'j', '/third')
    g.link('j', '/d/second', 'i', '/D/' + ifile(2))
    g.link('i', '/D/' + ifile(2), 'i', '/D/' + ifile(3))
    g.add_file(0, None, '/z0')
    g.link('j', '/z0', 'i', '/' + ifile(9))
    g.add_file(5, '/D/' + ifile(4), None)
    g.link('i', '/D/' + ifile(4), 'j', '/late name')
    g.add_file(2048, None, '/d/jonly')
    g.link('j', '/d/jonly', 'j', '/d/jonly2')
    g.rmlink('j', '/first')
    g.rmlink('i', '/' + ifile(1))


def h_unicode(g):
    rng = random.Random(7)
    g.add_dir('/U', '/Ünicöde')
    base = '/Ünicöde'
    k = 0
    for a in range(len(ALPHABETS)):
        for units in (1, 2, 7, 21, 64):
            nm = jname(rng, units, a)
            if g.add_file(LENS[k % len(LENS)], '/U/' + ifile(k) if k % 3 else None, base + '/' + nm):
                k += 1
    g.add_dir(None, base + '/日本語')
    g.add_file(9, None, base + '/日本語/ファイル.txt')
    g.add_dir(None, '/￿')
    g.add_file(1, None, '/￿/\u0001')


def h_lengths(g):
    """ASCII names of every length 1..64, files and directories"""
    g.add_dir('/L', '/len')
    for u in range(1, 65):
        g.add_file(u % 3, None, '/len/' + jfix(u, u))
    for u in (1, 2, 31, 32, 63, 64):
        g.add_dir(None, '/len/' + 'D' * u)
        g.add_file(u, None, '/len/' + 'D' * u + '/' + jfix(1, u))


def h_case_prefix(g):
    g.add_dir('/C', '/c')
    for nm in ('a', 'A', 'ab', 'aB', 'Ab', 'AB', 'abc', 'a b', 'a.b', 'a.', 'a;1', 'b', 'B', 'a\u0001', 'aé',
               'a†', 'a‡', 'a ', 'a  '):
        g.add_file(len(nm), None, '/c/' + nm)
    for nm in ('dir', 'DIR', 'Dir', 'di', 'dirs'):
        g.add_dir(None, '/c/' + nm)
        g.add_file(1, None, '/c/' + nm + '/' + nm)


def h_blocks(g, nrec, units, sub=True):
    """`nrec` records of 33 + 2*units (+1) bytes in one Joliet directory"""
    base = ''
    if sub:
        g.add_dir('/B', '/blocks')
        base = '/blocks'
    for k in range(nrec):
        g.add_file([0, 3, 2048][k % 3] if k < 6 else 0, ('/B/' if sub else '/') + ifile(k) if k % 2 else None,
                   base + '/' + jfix(k, units))
    if sub:
        g.add_dir(None, '/blocks/sub')
        g.add_file(5, None, '/blocks/sub/x')


def h_shrink(g, n_add, n_rm, readd):
    g.add_dir('/S', '/shrink')
    g.add_dir(None, '/shrink/keep')
    g.add_file(1, None, '/shrink/keep/k')
    names = ['/shrink/' + jfix(k, 40) for k in range(n_add)]
    for k, nm in enumerate(names):
        g.add_file(2, '/S/' + ifile(k) if k % 2 == 0 else None, nm)
    for k, nm in enumerate(names[:n_rm]):
        if k % 2 == 0:
            g.rmfile('j', nm)
        else:
            g.rmlink('j', nm)
    for nm in names[:readd]:
        g.add_file(2049, None, nm)


def h_ptable(g, nd, nrm):
    """the Joliet path table (10 + 136 per 64-unit name) crosses 4096 bytes at the 31st directory"""
    for k in range(nd):
        g.add_dir(None, '/' + jfix(k, 64))
    g.add_file(1, None, '/' + jfix(3, 64) + '/inside')
    g.add_file(2049, '/' + ifile(1), '/top')
    for k in range(nrm):
        g.rmdir(None, '/' + jfix(nd - 1 - k, 64))


def h_rebuild(g):
    g.add_dir('/A', '/a')
    g.add_dir('/A/B', '/a/b')
    g.add_file(5, '/A/B/' + ifile(1), '/a/b/f1')
    g.add_file(2048, '/A/' + ifile(2), '/a/f2')
    g.write()
    g.rmfile('i', '/A/B/' + ifile(1))
    g.rmdir('/A/B', '/a/b')
    g.rmfile('j', '/a/f2')
    g.rmdir('/A', None)
    g.rmdir(None, '/a')
    g.add_dir('/A', '/a')
    g.add_file(0, '/A/' + ifile(3), '/a/f3')
    g.add_dir('/A/C', None)
    g.add_dir(None, '/a/c')
    g.add_dir(None, '/a/c/b')
    g.add_file(4097, '/A/C/' + ifile(1), '/a/c/b/f1')
    g.write()
    g.add_file(1, None, '/a/c/after write')


def h_random(g, rng, nops):
    if rng.random() < 0.4:
        # a Joliet directory of 2 or 3 blocks (162-byte records: 12 per block), some records shared with ISO9660
        big = '/' + jname(rng, rng.choice([3, 9]))
        if g.add_dir('/BIG' if rng.random() < 0.5 else None, big):
            for k in range(rng.choice([13, 20, 25, 30])):
                ip = '/BIG/' + ifile(k) if '/BIG' in g.ns['i'] and k % 3 == 0 else None
                g.add_file(rng.choice(LENS), ip, big + '/' + jfix(k, rng.choice([60, 64])))
    for _ in range(nops):
        r = rng.random()
        idirs = [p for p, v in g.ns['i'].items() if v == 'd']
        jdirs = [p for p, v in g.ns['j'].items() if v == 'd']
        ifiles = [p for p, v in g.ns['i'].items() if v != 'd']
        jfiles = [p for p, v in g.ns['j'].items() if v != 'd']
        if r < 0.22:
            ip = jp = None
            m = rng.random()
            if m < 0.7 and len(idirs) < 20:
                par = rng.choice(idirs)
                if par.count('/') < 7:
                    ip = par + '/' + idir(rng.randrange(10000), rng.choice([1, 2, 4, 8]))
            if m > 0.3 and len(jdirs) < 25:
                jp = rng.choice(jdirs) + '/' + jname(rng)
            g.add_dir(ip, jp)
        elif r < 0.62:
            ip = jp = None
            m = rng.random()
            if m < 0.7:
                par = rng.choice(idirs)
                if par.count('/') < 7:
                    ip = par + '/' + ifile(rng.randrange(1000000), rng.choice([9, 10, 12, 20]))
            if m > 0.2:
                jp = rng.choice(jdirs[-3:] if rng.random() < 0.4 else jdirs) + '/' + jname(rng)
            g.add_file(rng.choice(LENS), ip, jp)
        elif r < 0.74 and (ifiles or jfiles):
            ons = rng.choice(['i', 'j'])
            olds = ifiles if ons == 'i' else jfiles
            if not olds:
                continue
            nns = rng.choice(['i', 'j'])
            if nns == 'i':
                par = rng.choice(idirs)
                if par.count('/') >= 7:
                    continue
                new = par + '/' + ifile(rng.randrange(1000000))
            else:
                new = rng.choice(jdirs) + '/' + jname(rng)
            g.link(ons, rng.choice(olds), nns, new)
        elif r < 0.82 and (ifiles or jfiles):
            ns = rng.choice(['i', 'j'])
            fs = ifiles if ns == 'i' else jfiles
            if fs:
                g.rmlink(ns, rng.choice(fs))
        elif r < 0.90 and (ifiles or jfiles):
            ns = rng.choice(['i', 'j'])
            fs = ifiles if ns == 'i' else jfiles
            if fs:
                g.rmfile(ns, rng.choice(fs))
        elif r < 0.93:
            g.write()
        else:
            ie = [p for p in idirs if g.empty_dir('i', p)]
            je = [p for p in jdirs if g.empty_dir('j', p)]
            m = rng.random()
            g.rmdir(rng.choice(ie) if ie and m < 0.6 else None, rng.choice(je) if je and m > 0.4 else None)


def boundary_cases():
    cs = []

    def add(name, f, *args):
        g = Gen()
        f(g, *args)
        cs.append(g.case(name))

    add('empty', lambda g: None)
    add('same', h_same)
    add('only', h_only)
    add('shapes', h_shapes)
    add('links', h_links)
    add('unicode', h_unicode)
    add('lengths', h_lengths)
    add('case_prefix', h_case_prefix)
    # 162-byte records (64 units): 12 fill the first block (68 + 12*162 = 2012), 12 each further block
    for nrec in (11, 12, 13, 24, 25, 26):
        add('blocks64_%d' % nrec, h_blocks, nrec, 64)
    # 36-byte records (1..4 units -> 4 units: 33+8+1 = 42): (2048-68)/42 = 47.1
    for nrec in (46, 47, 48, 95, 96):
        add('blocks4_%d' % nrec, h_blocks, nrec, 4)
    for nrec in (12, 13, 14):
        add('rootblocks_%d' % nrec, h_blocks, nrec, 64, False)
    for (a, b, c) in ((30, 0, 0), (30, 10, 0), (30, 29, 0), (30, 30, 0), (40, 35, 5), (40, 20, 20)):
        add('shrink_%d_%d_%d' % (a, b, c), h_shrink, a, b, c)
    for nd, nrm in ((29, 0), (30, 0), (31, 0), (32, 1), (32, 2), (33, 5)):
        add('ptable_%d_%d' % (nd, nrm), h_ptable, nd, nrm)
    add('rebuild', h_rebuild)
    return cs


def cases(seed, n):
    cs = boundary_cases()[:n]
    rng = random.Random(seed)
    k = 0
    while len(cs) < n:
        g = Gen()
        h_random(g, rng, rng.choice([8, 20, 40, 60, 90]))
        cs.append(g.case('rand_%d_%d' % (seed, k)))
        k += 1
    return cs


# ---------------------------------------------------------------------------------------- run on pycdlib

def kw(ns, path, prefix):
    return {('iso_' if ns == 'i' else 'joliet_') + prefix: path}


def build(ops):
    saved = time.time
    time.time = lambda: CLOCK
    try:
        iso = pycdlib.PyCdlib()
        iso.new(interchange_level=3, joliet=3)
        for op in ops:
            if op[0] == 'dir':
                iso.add_directory(iso_path=op[1], joliet_path=op[2])
            elif op[0] == 'file':
                iso.add_fp(io.BytesIO(b'\x5a' * op[1]), op[1], iso_path=op[2], joliet_path=op[3])
            elif op[0] == 'link':
                args = kw(op[1][0], op[1][1], 'old_path')
                args.update(kw(op[2][0], op[2][1], 'new_path'))
                iso.add_hard_link(**args)
            elif op[0] == 'rmlink':
                iso.rm_hard_link(**kw(op[1], op[2], 'path'))
            elif op[0] == 'rmfile':
                iso.rm_file(**kw(op[1], op[2], 'path'))
            elif op[0] == 'rmdir':
                args = {}
                if op[1] is not None:
                    args['iso_path'] = op[1]
                if op[2] is not None:
                    args['joliet_path'] = op[2]
                iso.rm_directory(**args)
            else:
                iso.write_fp(io.BytesIO())
        state = state_of(iso)
        out = io.BytesIO()
        iso.write_fp(out)
        iso.close()
    finally:
        time.time = saved
    return state, out.getvalue()


def state_of(iso):
    """the object graph, no extents"""
    index = {}

    def ino_id(ino):
        if id(ino) not in index:
            index[id(ino)] = len(index)
        return index[id(ino)]

    for ino in iso.inodes:
        ino_id(ino)

    def tree(rec):
        if rec.is_dir():
            return ('D', rec.file_ident, rec.data_length, [tree(c) for c in rec.children[2:]])
        return ('F', rec.file_ident, ino_id(rec.inode))

    ti = tree(iso.pvd.root_directory_record())
    tj = tree(iso.joliet_vd.root_directory_record())
    table = [(index[id(ino)], ino.get_data_length()) for ino in iso.inodes]
    if len(index) != len(iso.inodes):
        raise RuntimeError('a record points to an inode outside iso.inodes')
    return dict(ti=ti, tj=tj, table=table,
                ips=iso.pvd.path_tbl_size, ipe=iso.pvd.path_table_num_extents,
                jps=iso.joliet_vd.path_tbl_size, jpe=iso.joliet_vd.path_table_num_extents,
                ispace=iso.pvd.space_size, jspace=iso.joliet_vd.space_size)


def le32(b, off):
    return struct.unpack_from('<I', b, off)[0]


def be32(b, off):
    return struct.unpack_from('>I', b, off)[0]


def cut_dirs(img, rext, rlen):
    """[(extent, bytes)] of every directory, breadth first from a root record; own parser"""
    queue, res = [(rext, rlen)], []
    while queue:
        ext, ln = queue.pop(0)
        nblk = -(-ln // BLOCK)
        data = img[ext * BLOCK:(ext + nblk) * BLOCK]
        res.append((ext, data))
        off, k = 0, 0
        while off < ln:
            l = data[off]
            if l == 0:
                off = (off // BLOCK + 1) * BLOCK
                continue
            if k >= 2 and data[off + 25] & 2:
                queue.append((le32(data, off + 2), le32(data, off + 10)))
            off += l
            k += 1
    return res


def cut(img):
    pvd = img[16 * BLOCK:17 * BLOCK]
    svd = img[17 * BLOCK:18 * BLOCK]
    if pvd[0] != 1 or svd[0] != 2 or svd[88:91] != b'%/E':
        raise RuntimeError('descriptors are not where they are expected')
    proot = (le32(pvd, 156 + 2), le32(pvd, 156 + 10))
    date = bytes(pvd[156 + 18:156 + 25])
    space, ptsize, locl, locm = le32(svd, 80), le32(svd, 132), le32(svd, 140), be32(svd, 148)
    sroot = (le32(svd, 156 + 2), le32(svd, 156 + 10))
    n = locm - locl
    ltab = img[locl * BLOCK:locm * BLOCK]
    mtab = img[locm * BLOCK:(locm + n) * BLOCK]
    return dict(date=date, proot=proot, svd=[space, ptsize, locl, locm, sroot[0], sroot[1]],
                ltab=ltab, mtab=mtab, jdirs=cut_dirs(img, *sroot), idirs=cut_dirs(img, *proot))


# ---------------------------------------------------------------------------------------- Coq terms

def zl(b):
    return '[' + '; '.join(str(x) for x in b) + ']'


def coq_tree(t):
    if t[0] == 'F':
        return 'LFile %s %d 0' % (zl(t[1]), t[2])
    return 'LDir %s %d [%s]' % (zl(t[1]), t[2], '; '.join(coq_tree(k) for k in t[3]))


def coq_shadow(t):
    name = zl([ord(c) for c in t[1]])
    if t[0] == 'F':
        return 'SFile %s %d' % (name, t[2])
    return 'SDir %s [%s]' % (name, '; '.join(coq_shadow(k) for k in t[2]))


def rle(data):
    """[(zeros, literal)]: runs of >= 6 zero bytes are counted, everything else is literal"""
    segs, i, n = [], 0, len(data)
    while i < n:
        z = i
        while z < n and data[z] == 0:
            z += 1
        zeros = z - i
        j = z
        while j < n:
            if data[j] == 0:
                e = j
                while e < n and data[e] == 0 and e - j < 6:
                    e += 1
                if e - j >= 6 or e == n:
                    break
                j = e
            else:
                j += 1
        segs.append((zeros, data[z:j]))
        i = j
    return segs


def coq_rle(data):
    return '[' + '; '.join('(%d, %s)' % (z, zl(lit)) for z, lit in rle(data)) + ']'


def coq_chunks(cs):
    return '[' + ';\n    '.join('(%d, %s)' % (e, coq_rle(d)) for e, d in cs) + ']'


def render(case):
    st, img = build(case[1])
    c = cut(img)
    state = ('AccountNs.Build_nstate\n   (%s)\n   (%s)\n   %s [] %d %d %d %d %d %d'
             % (coq_tree(st['ti']), coq_tree(st['tj']),
                '[' + '; '.join('(%d%%nat, %d)' % e for e in st['table']) + ']',
                st['ips'], st['ipe'], st['jps'], st['jpe'], st['ispace'], st['jspace']))
    return ('mk_mj_case\n  (%s)\n  %s %s (%d, %d)\n  %s\n  %s\n  %s\n  %s\n  (%s)'
            % (state, zl(c['date']), zl(c['svd']), c['proot'][0], c['proot'][1],
               coq_rle(c['ltab']), coq_rle(c['mtab']), coq_chunks(c['jdirs']), coq_chunks(c['idirs']),
               coq_shadow(case[2])))


HEADER = ('From Coq Require Import ZArith List Bool.\nImport ListNotations.\n'
          'From PV.Model Require AccountNs.\nFrom PV.Model Require Import MasterJoliet.\n'
          'Local Open Scope Z_scope.\n')


def main():
    seed, n = int(sys.argv[1]), int(sys.argv[2])
    outdir = sys.argv[3] if len(sys.argv) > 3 else '/var/tmp/joliet/cases'
    shard = int(sys.argv[4]) if len(sys.argv) > 4 else 25
    os.makedirs(outdir, exist_ok=True)
    cs = cases(seed, n)
    k = 0
    for i in range(0, len(cs), shard):
        texts = [render(c) for c in cs[i:i + shard]]
        with open(os.path.join(outdir, 'S%d.v' % k), 'w') as f:
            f.write(HEADER)
            f.write('Definition cases : list mj_case := [\n%s].\n' % ';\n'.join(texts))
            f.write('Eval vm_compute in bad_masterjoliet_cases 0 cases.\n')
        k += 1
    print(len(cs), 'cases', k, 'shards in', outdir)


if __name__ == '__main__':
    main()
