#!/venv/bin/python
"""Differential test of coq/theories/Model/AccountLinks.v against the real pycdlib.

Runs edit histories (add_fp / add_directory / add_hard_link / rm_hard_link / rm_file /
rm_directory, valid and invalid) against /repo/pycdlib and records after every operation

    accepted?, pvd.space_size, pvd.path_tbl_size, pvd.path_table_num_extents,
    sum of directory data_lengths, len(iso.inodes),
    sorted list of (inode data length, number of linked records),
    end of the extents assigned by _reshuffle_extents (max over directories and inodes of
    extent + blocks)

and emits a Coq file with one Example per history stating that AccountLinks.lrun_probe /
lrun_flags / lrun_ends compute exactly these numbers (and that space = layout_end after every
operation); the Examples are closed by vm_compute.

usage:  PYTHONPATH=/repo /venv/bin/python /verif/tools/account_links_traces.py OUT.v SPEC [SPEC ...]
        SPEC = scenario | example | SEED:NOPS        (random history from SEED with NOPS operations)
check:  cd /verif/coq && coqc -q -Q theories PV -Q <dir of OUT.v> Tmp OUT.v
Write OUT.v OUTSIDE /verif/coq/theories: it depends on the behaviour of the library.  The harness
(harness/props/accountlinksleaf.py) imports Runner / scenario / example / random_history /
coq_bytes / coq_pairs from this file and evaluates the traces itself.
"""
import collections
import io
import random
import sys

sys.path.insert(0, '/repo')
import pycdlib  # noqa: E402
from pycdlib import pycdlibexception  # noqa: E402

BLOCK = 2048


def cdiv(a, b):
    return -(-a // b)


def probe(iso):
    q = collections.deque([iso.pvd.root_directory_record()])
    tot = 0
    dirs = []
    while q:
        d = q.popleft()
        tot += d.data_length
        dirs.append(d)
        for c in d.children[2:]:
            if c.is_dir():
                q.append(c)
    iso._reshuffle_extents()  # what write_fp() / force_consistency() would do
    end = 16 + 1 + 1 + 1 + 2 * iso.pvd.path_table_num_extents
    for d in dirs:
        end = max(end, d.extent_location() + cdiv(d.data_length, BLOCK))
    for ino in iso.inodes:
        if ino.get_data_length() > 0:
            end = max(end, ino.extent_location() + cdiv(ino.get_data_length(), BLOCK))
    inos = sorted((ino.get_data_length(), len(ino.linked_records)) for ino in iso.inodes)
    return ([iso.pvd.space_size, iso.pvd.path_tbl_size, iso.pvd.path_table_num_extents, tot,
             len(iso.inodes)], inos, end)


def coq_bytes(b):
    return '[' + '; '.join(str(x) for x in b) + ']'


def coq_path(comps):
    return '[' + '; '.join(coq_bytes(c) for c in comps) + ']'


def coq_pairs(ps):
    return '[' + '; '.join('(%d, %d)' % p for p in ps) + ']'


def iso_path(comps):
    return '/' + '/'.join(x.decode() for x in comps)


class Runner:
    """Executes operations against pycdlib and records what the Coq model must reproduce."""

    def __init__(self):
        self.iso = pycdlib.PyCdlib()
        self.iso.new(interchange_level=3)
        self.first, self.first_inos, self.first_end = probe(self.iso)
        self.ops, self.probes, self.inos, self.flags, self.ends = [], [], [], [], []

    def do(self, op):
        kind = op[0]
        if kind == 'AddFile':
            _, d, nm, ln = op
            self.ops.append('LAddFile %s %s (%d)' % (coq_path(d), coq_bytes(nm), ln))

            def call():
                self.iso.add_fp(io.BytesIO(b''), ln, iso_path(d + (nm,)))
        elif kind == 'AddDir':
            _, d, nm = op
            self.ops.append('LAddDir %s %s' % (coq_path(d), coq_bytes(nm)))

            def call():
                self.iso.add_directory(iso_path(d + (nm,)))
        elif kind == 'AddLink':
            _, src, d, nm = op
            self.ops.append('LAddLink %s %s %s' % (coq_path(src), coq_path(d), coq_bytes(nm)))

            def call():
                self.iso.add_hard_link(iso_old_path=iso_path(src), iso_new_path=iso_path(d + (nm,)))
        elif kind == 'RmLink':
            _, d, nm = op
            self.ops.append('LRmLink %s %s' % (coq_path(d), coq_bytes(nm)))

            def call():
                self.iso.rm_hard_link(iso_path=iso_path(d + (nm,)))
        elif kind == 'RmFile':
            _, d, nm = op
            self.ops.append('LRmFile %s %s' % (coq_path(d), coq_bytes(nm)))

            def call():
                self.iso.rm_file(iso_path(d + (nm,)))
        else:
            _, p = op
            self.ops.append('LRmDir %s' % coq_path(p))

            def call():
                self.iso.rm_directory(iso_path(p))
        try:
            call()
            ok = True
        except pycdlibexception.PyCdlibInvalidInput:
            ok = False
        pr, inos, end = probe(self.iso)
        self.probes.append(pr)
        self.inos.append(inos)
        self.flags.append(ok)
        self.ends.append(end)
        return ok

    def names(self):
        """(directory tuple, name) of every file record currently in the image."""
        out = []
        q = collections.deque([((), self.iso.pvd.root_directory_record())])
        while q:
            p, d = q.popleft()
            for c in d.children[2:]:
                if c.is_dir():
                    q.append((p + (c.file_ident,), c))
                else:
                    out.append((p, c.file_ident))
        return out

    def emit(self, f, name, comment):
        f.write('(* %s *)\n' % comment)
        f.write('Definition %s_ops : list lop :=\n  [%s].\n\n' % (name, ';\n   '.join(self.ops)))
        f.write('Example %s :\n  lprobe linit = %s /\\ llayout_end linit = %d /\\\n'
                % (name, coq_bytes(self.first), self.first_end))
        f.write('  lrun_probe %s_ops =\n  [%s] /\\\n'
                % (name, ';\n   '.join('(%s, %s)' % (coq_bytes(p), coq_pairs(i))
                                       for p, i in zip(self.probes, self.inos))))
        f.write('  lrun_flags %s_ops =\n  [%s] /\\\n' % (name, '; '.join('true' if b else 'false' for b in self.flags)))
        f.write('  map snd (lrun_ends %s_ops) =\n  %s /\\\n' % (name, coq_bytes(self.ends)))
        f.write('  forallb (fun p => fst p =? snd p) (lrun_ends %s_ops) = true.\n' % name)
        f.write('Proof. vm_compute. repeat split; reflexivity. Qed.\n\n')
        print('%s: %d ops, %d accepted, final %s %s end %d'
              % (name, len(self.ops), sum(self.flags), self.probes[-1], self.inos[-1], self.ends[-1]))


def gen_name(rng, isdir, long_names):
    alphabet = b'ABCDEFGHIJKLMNOPQRSTUVWXYZ0123456789_'
    r = rng.random()
    if long_names and r < 0.6:
        n = rng.choice([120, 200, 207, 208, 219, 222])
    else:
        n = rng.choice([1, 1, 2, 3])
    base = bytes(rng.choice(alphabet) for _ in range(n))
    if isdir:
        return base
    r = rng.random()
    if r < 0.4:
        return base + b';1'
    if r < 0.5:
        return base + b'.' + bytes(rng.choice(alphabet) for _ in range(rng.choice([0, 1, 3]))) + b';1'
    if r < 0.53:
        return base + b';0'          # invalid version
    if r < 0.56:
        return base.lower()          # invalid characters
    return base


def random_history(run, seed, nops):
    """Heavy in links and removals.  seed % 3 == 1: long names (directories overflow a block and
    shrink again while links come and go); seed % 3 == 2: more directories."""
    rng = random.Random(seed)
    long_names = (seed % 3 == 1)
    many_dirs = (seed % 3 == 2)
    dirs = [()]
    for _ in range(nops):
        files = run.names()
        r = rng.random()
        if r < 0.17:
            kind = 'addfile'
        elif r < (0.32 if many_dirs else 0.24):
            kind = 'adddir'
        elif r < 0.62:
            kind = 'addlink'
        elif r < 0.80:
            kind = 'rmlink'
        elif r < 0.92:
            kind = 'rmfile'
        else:
            kind = 'rmdir'
        bogus = rng.random() < 0.10
        if kind == 'addfile':
            d = rng.choice(dirs) if not bogus else rng.choice(dirs) + (b'NOPE',)
            nm = gen_name(rng, False, long_names)
            if files and rng.random() < 0.1:
                d, nm = rng.choice(files)         # duplicate
            ln = rng.choice([0, 0, 1, 2047, 2048, 2049, 4096, 100000, 4294965248])
            run.do(('AddFile', d, nm, ln))
        elif kind == 'adddir':
            d = rng.choice(dirs) if not bogus else rng.choice(dirs) + (b'NOPE',)
            nm = gen_name(rng, True, False)
            if run.do(('AddDir', d, nm)):
                dirs.append(d + (nm,))
        elif kind == 'addlink':
            r2 = rng.random()
            if files and r2 < 0.85:
                sd, sn = rng.choice(files)
                src = sd + (sn,)
            elif r2 < 0.92:
                src = rng.choice(dirs)            # a directory (or the root): refused
            else:
                src = rng.choice(dirs) + (b'MISSING',)
            d = rng.choice(dirs) if not bogus else rng.choice(dirs) + (b'NOPE',)
            nm = gen_name(rng, False, long_names)
            r3 = rng.random()
            if files and r3 < 0.08:
                d, nm = rng.choice(files)         # duplicate target
            elif len(dirs) > 1 and r3 < 0.12:
                dd = rng.choice(dirs[1:])
                d, nm = dd[:-1], dd[-1]           # target is the name of a directory
            run.do(('AddLink', src, d, nm))
        elif kind in ('rmlink', 'rmfile'):
            if files and not bogus:
                d, nm = rng.choice(files)
            elif len(dirs) > 1 and rng.random() < 0.5:
                dd = rng.choice(dirs[1:])
                d, nm = dd[:-1], dd[-1]           # a directory: refused
            else:
                d, nm = rng.choice(dirs), b'MISSING'
            run.do(('RmLink' if kind == 'rmlink' else 'RmFile', d, nm))
        else:
            if rng.random() < 0.05:
                p = ()
            elif files and rng.random() < 0.1:
                d, nm = rng.choice(files)
                p = d + (nm,)                     # a file: refused
            elif bogus or len(dirs) == 1:
                p = rng.choice(dirs) + (b'MISSING',)
            else:
                p = rng.choice(dirs[1:])
            if run.do(('RmDir', p)):
                dirs.remove(p)


def scenario(run):
    """A fixed history: one content with names in three directories (two of them in a directory
    that has grown to two blocks), links to a zero-length file, links whose old path is a
    directory or the root (refused), other refused operations, rm_hard_link down to the last
    name, rm_file removing all names at once."""
    def long_name(i):
        return b'N' * 199 + bytes([65 + i]) + b';1'      # 202 bytes -> dr_len 236
    run.do(('AddFile', (), b'A.;1', 5000))
    run.do(('AddDir', (), b'D'))
    run.do(('AddDir', (b'D',), b'E'))
    run.do(('AddFile', (b'D',), b'Z.;1', 0))
    for i in range(8):                                    # root: 9 long records -> 2 blocks
        run.do(('AddLink', (b'A.;1',), (), long_name(i)))
    run.do(('AddLink', (long_name(3),), (b'D', b'E'), b'B.;1'))   # link made from a link
    run.do(('AddLink', (b'D', b'Z.;1'), (b'D',), b'Y.;1'))        # second name of an empty file
    run.do(('AddLink', (b'D',), (), b'DL.;1'))            # old path is a directory: refused
    run.do(('AddLink', (), (b'D',), b'RL.;1'))            # old path is the root: refused
    run.do(('AddLink', (b'NOPE',), (), b'X.;1'))          # missing source: refused
    run.do(('AddLink', (b'A.;1',), (), b'A.;1'))          # duplicate target: refused
    run.do(('AddLink', (b'A.;1',), (), b'D'))             # target is a directory name: refused
    run.do(('AddLink', (b'A.;1',), (b'Q',), b'X.;1'))     # missing target directory: refused
    run.do(('AddLink', (b'A.;1',), (), b'x'))             # invalid characters: refused
    run.do(('RmLink', (), b'D'))                          # a directory: refused
    run.do(('RmLink', (), b'A.;1'))                       # first name goes, content stays
    run.do(('RmLink', (), long_name(0)))
    run.do(('RmLink', (b'D',), b'Y.;1'))
    run.do(('RmLink', (b'D',), b'Z.;1'))                  # last name of the empty file
    run.do(('RmFile', (), b'DL.;1'))                      # was never created: refused
    run.do(('RmLink', (b'D',), b'RL.;1'))                 # was never created: refused
    run.do(('AddFile', (), b'C.;1', 2049))
    run.do(('AddLink', (b'C.;1',), (b'D', b'E'), b'C2.;1'))
    run.do(('RmFile', (b'D', b'E'), b'B.;1'))             # all 8 remaining names of A's content
    run.do(('RmDir', (b'D', b'E')))                       # still holds C2: refused
    run.do(('RmLink', (), b'C.;1'))
    run.do(('RmLink', (b'D', b'E'), b'C2.;1'))            # last name: content released
    run.do(('RmDir', (b'D', b'E')))
    run.do(('RmDir', (b'D',)))


def example(run):
    """The history lex_ops of Proofs/AccountLinksProofs.v (Example lex_history)."""
    A, B, Cn, Y, Z, DL, D = b'A;1', b'B;1', b'C;1', b'Y;1', b'Z;1', b'DL;1', b'D'
    for op in [('AddFile', (), A, 5000), ('AddDir', (), D), ('AddLink', (A,), (D,), B),
               ('AddLink', (D, B), (), Cn), ('AddFile', (D,), Z, 0), ('AddLink', (D, Z), (), Y),
               ('AddLink', (D,), (), DL), ('AddLink', (b'N',), (), B), ('AddLink', (A,), (), A),
               ('AddLink', (A,), (), D), ('RmLink', (), D), ('RmLink', (), A), ('RmLink', (D,), B),
               ('RmLink', (), Cn), ('AddFile', (), A, 2049), ('AddLink', (A,), (D,), B),
               ('AddLink', (D, B), (D,), Cn), ('RmDir', (D,)), ('RmFile', (D,), B),
               ('RmFile', (), DL), ('RmLink', (), Y), ('RmLink', (D,), Z), ('RmDir', (D,))]:
        run.do(op)


def main():
    out = sys.argv[1]
    specs = sys.argv[2:]
    with open(out, 'w') as f:
        f.write('(* GENERATED by /verif/tools/account_links_traces.py %s\n' % ' '.join(specs))
        f.write('   Each Example states what the real pycdlib (/repo) computed after every operation of an\n')
        f.write('   edit history: ([pvd.space_size; pvd.path_tbl_size; pvd.path_table_num_extents; sum of\n')
        f.write('   directory data_lengths; len(inodes)], sorted [(inode length, linked records)]),\n')
        f.write('   accepted?, and the end of the extents assigned by _reshuffle_extents;\n')
        f.write('   Model/AccountLinks.v reproduces them by vm_compute. *)\n')
        f.write('From Coq Require Import ZArith List Bool.\nFrom PV.Model Require Import Account AccountLinks.\n')
        f.write('Import ListNotations.\nLocal Open Scope Z_scope.\n\n')
        for spec in specs:
            run = Runner()
            if spec == 'example':
                example(run)
                run.emit(f, 'lexample', 'the history of Example lex_history in Proofs/AccountLinksProofs.v')
            elif spec == 'scenario':
                scenario(run)
                run.emit(f, 'lscenario', 'fixed scenario: names of one content in three directories')
            else:
                seed, nops = (int(x) for x in spec.split(':'))
                random_history(run, seed, nops)
                run.emit(f, 'ltrace_%d' % seed, 'random history, seed %d, %d operations' % (seed, nops))


if __name__ == '__main__':
    main()
