#!/bin/bash
# usage: tools/confirm_seed2.sh <Cxx> <A|B> <newletter>  -- round-2 seeds live under /var/tmp/seed4; stored as /verif/seeded/<Cxx><newletter>
P=$1; X=$2; N=$3; W=/var/tmp/seed4/$P; O=/var/tmp/seed4/out/$P
[ -f $O/patch$X.diff ] || { echo "no patch"; exit 2; }
git -C $W checkout -q -- . ; git -C $W apply $O/patch$X.diff || { echo "apply failed"; exit 2; }
B=$(/venv/bin/python /var/tmp/seed4/tools/baseline_check.py $W -n 8 | head -1)
PYTHONPATH=$W /venv/bin/python $O/demo$X.py > /var/tmp/demo4_$P$X.mut.log 2>&1; RM=$?
git -C $W checkout -q -- .
PYTHONPATH=$W /venv/bin/python $O/demo$X.py > /var/tmp/demo4_$P$X.clean.log 2>&1; RC=$?
echo "$P$X->$P$N baseline: $B ; demo with change exit=$RM ; demo clean exit=$RC"
if echo "$B" | grep -q "regressions: 0" && [ $RM -ne 0 ] && [ $RC -eq 0 ]; then
  D=/verif/seeded/$P$N; mkdir -p $D; cp $O/patch$X.diff $D/patch.diff; cp $O/demo$X.py $D/demo.py; cp $O/notes$X.md $D/notes.md
  /venv/bin/python - <<PY
import json
json.dump({"property":"$P","id":"$P$N","round":4,"breaks":"see notes.md","needs_to_manifest":"see notes.md",
 "confirmed":{"baseline_with_change":"$B","demo_with_change_exit":$RM,"demo_clean_exit":$RC,
 "commands":["git apply patch.diff (scratch worktree of /repo HEAD)","/venv/bin/python baseline_check.py <worktree> -n 8","PYTHONPATH=<worktree> /venv/bin/python demo.py (with and without the change)"]},
 "detected_by": None}, open("$D/meta.json","w"), indent=1)
PY
  echo "  stored in $D"
else echo "  NOT CONFIRMED"; fi
