#!/venv/bin/python
"""Correspondence cases for coq/theories/Model/InPlace.v (PyCdlib.modify_file_in_place as a list of writes).

A case is (image configuration, target path, `length` argument, number of bytes the fp really holds, how the image is
opened, lengths of earlier modify_file_in_place calls made on the same target in the same session).  `render(case)` builds the image with the real pycdlib (/repo, time.time() pinned) into a file under
/var/tmp/inplace/cache (once per configuration), copies it to a scratch file, opens that 'r+b' (or 'rb', or as a
BytesIO), wraps the file object so that every write(bytes) issued through it is LOGGED with the position it lands
on, calls open_fp(), extracts the model's [state] from the library's OBJECT GRAPH before the call (the record found
for iso_path, its inode's linked_records with their cached positions and field values, the volume descriptors),
moves the clock (so that the rewritten volume modification date is visible), calls modify_file_in_place and prints
the Coq term

   (state, length, fp bytes, now (17-byte volume descriptor date), kind, logged writes, old bytes, wf)

of type InPlace.ip_case: kind 0 = raised before any write, 1 = returned, 2 = raised after writing.  `old bytes`
are the bytes the file had BEFORE the call at every volume descriptor sector and every linked record, from which the
Coq side rebuilds the part of the image `wf_state` looks at; wf = the state comes from an image pycdlib mastered itself
and the target is a file (wf_state must then hold).  `InPlace.bad_inplace_cases 0 cases` lists the cases where
`modify_run` does not issue exactly the logged writes (empty writes dropped, adjacent writes merged, ORDER compared)
or where wf_state fails although expected.

    cases(seed, n) -> n case descriptors (a fixed grid of boundary cases first, then random ones drawn from `seed`)
    render(case)   -> Coq term

usage: /venv/bin/python /verif/tools/inplace_cases.py SEED N [OUTDIR]   (writes shards of <= 60 cases, S<k>.v;
       check each with  cd /verif/coq && coqc -q -Q theories PV OUTDIR/S<k>.v  -- it must print `= []`)
"""
import hashlib
import io
import os
import random
import shutil
import sys
import time

sys.path.insert(0, os.environ.get('VERIF_REPO', '/repo'))
import pycdlib  # noqa: E402
from pycdlib import dates, dr, eltorito, udf as udfmod, utils  # noqa: E402

LBS = 2048
CLOCK1 = 1700000000.0
CLOCK2 = 1700086461.0
WORK = '/var/tmp/inplace'
CACHE = os.path.join(WORK, 'cache')
_real_time = time.time
_clock = [CLOCK1]


def _pin(t):
    _clock[0] = t
    time.time = lambda: _clock[0]


# ------------------------------------------------------------------------------------------ content

def content(n, v):
    """n bytes: mostly the value v, with markers at both ends and at every block boundary"""
    b = bytearray([v]) * n
    for k in range(0, n, LBS):
        b[k] = 3 + (k // LBS) % 200
        if k > 0:
            b[k - 1] = 7
    if n > 0:
        b[0] = 1
        b[n - 1] = 2
    return bytes(b)


# ------------------------------------------------------------------------------------------ images
# cfg = (joliet, udf, rr, xa, eltorito, nfill, subdir, size, links)
#   links: subset of 'i' (second ISO name next to the first), 'd' (ISO name in another directory),
#          'j' (Joliet-only second name), 'u' (second UDF name)

def fill_name(i):
    return 'F%07d.;1' % i


def build(cfg):
    joliet, udf, rr, xa, et, nfill, subdir, size, links = cfg
    key = hashlib.sha1(repr(cfg).encode()).hexdigest()[:16]
    path = os.path.join(CACHE, key + '.iso')
    if os.path.exists(path):
        return path
    os.makedirs(CACHE, exist_ok=True)
    _pin(CLOCK1)
    iso = pycdlib.PyCdlib()
    iso.new(interchange_level=1, joliet=3 if joliet else None, rock_ridge='1.09' if rr else None,
            udf='2.60' if udf else None, xa=xa)
    base = ''
    if subdir:
        kw = {}
        if rr:
            kw['rr_name'] = 'sub'
        if joliet:
            kw['joliet_path'] = '/sub'
        if udf:
            kw['udf_path'] = '/sub'
        iso.add_directory('/SUB', **kw)
        base = '/SUB'
    kw = {}
    if rr:
        kw['rr_name'] = 'other'
    if joliet:
        kw['joliet_path'] = '/other'
    if udf:
        kw['udf_path'] = '/other'
    iso.add_directory('/OTHER', **kw)
    jbase = '/sub' if subdir else ''
    for i in range(nfill):
        kw = {}
        if rr:
            kw['rr_name'] = 'f%07d' % i
        if joliet and i % 3 == 0:
            kw['joliet_path'] = jbase + '/f%07d' % i
        if udf and i % 5 == 0:
            kw['udf_path'] = jbase + '/f%07d' % i
        d = content(10 + i % 7, 70)
        iso.add_fp(io.BytesIO(d), len(d), base + '/' + fill_name(i), **kw)
    # a neighbour that follows the target in the data area
    kw = {}
    if rr:
        kw['rr_name'] = 'zzz'
    iso.add_fp(io.BytesIO(content(3000, 90)), 3000, '/ZZZ.;1', **kw)
    kw = {}
    if rr:
        kw['rr_name'] = 'target'
    if joliet:
        kw['joliet_path'] = jbase + '/target'
    if udf:
        kw['udf_path'] = jbase + '/target'
    d = content(size, 65)
    iso.add_fp(io.BytesIO(d), len(d), base + '/TARGET.;1', **kw)
    if 'i' in links:
        kw = {'rr_name': 'tlink'} if rr else {}
        iso.add_hard_link(iso_old_path=base + '/TARGET.;1', iso_new_path=base + '/TLINK.;1', **kw)
    if 'd' in links:
        kw = {'rr_name': 'dlink'} if rr else {}
        iso.add_hard_link(iso_old_path=base + '/TARGET.;1', iso_new_path='/OTHER/DLINK.;1', **kw)
    if 'j' in links and joliet:
        iso.add_hard_link(iso_old_path=base + '/TARGET.;1', joliet_new_path='/other/jlink')
    if 'u' in links and udf:
        iso.add_hard_link(iso_old_path=base + '/TARGET.;1', udf_new_path='/other/ulink')
    if et:
        boot = content(2048 * 2, 66)
        kw = {'rr_name': 'boot'} if rr else {}
        iso.add_fp(io.BytesIO(boot), len(boot), '/BOOT.;1', **kw)
        kw = {'rr_bootcatname': 'boot.cat'} if rr else {}
        iso.add_eltorito('/BOOT.;1', bootcatfile='/BOOT.CAT;1', **kw)
    iso.write(path + '.tmp')
    iso.close()
    os.rename(path + '.tmp', path)
    return path


# ------------------------------------------------------------------------------------------ cases

SIZES = [0, 1, 2047, 2048, 2049, 5000]


def new_lengths(size):
    n = -(-size // LBS)
    out = [('same', size), ('zero', 0), ('plus_sector', n * LBS + 1)]
    if n >= 1:
        out += [('shortest', (n - 1) * LBS + 1), ('longest', n * LBS), ('minus_sector', (n - 1) * LBS)]
        if size - 1 > (n - 1) * LBS:
            out.append(('minus1', size - 1))
        if size + 1 <= n * LBS:
            out.append(('plus1', size + 1))
    else:
        out += [('one', 1), ('negative', -5)]
    return out


def mk(cfg, target, length, fp_len=None, mode='r+b', pre=()):
    """pre: lengths of earlier modify_file_in_place calls on the same target in the same session (not logged)"""
    return {'cfg': cfg, 'target': target, 'length': length, 'fp_len': length if fp_len is None else fp_len, 'mode': mode,
            'pre': tuple(pre)}


def boundary_cases():
    cs = []
    plain = (False, False, False, False, False, 3, False)
    # every size x every new length on a plain image and on an image with every namespace and every kind of link
    full = (True, True, True, False, False, 3, True)
    for size in SIZES:
        for _, ln in new_lengths(size):
            cs.append(mk(plain + (size, ''), 'T', ln))
    for size in SIZES:
        for _, ln in new_lengths(size):
            cs.append(mk(full + (size, 'idju'), 'T', ln))
    # target record at the block boundaries of a fat directory: 44-byte records, '.' and '..' take 68 bytes,
    # so fillers 0..44 sort before TARGET.;1 ('F' < 'T'): with 44 fillers it is the LAST record of block 1
    # (ending exactly at 2048), with 45 the FIRST of block 2
    for nfill in (43, 44, 45, 46, 90, 91, 92):
        for links in ('', 'i'):
            cs.append(mk((False, False, False, False, False, nfill, False, 3000, links), 'T', 2100))
            cs.append(mk((True, False, False, False, False, nfill, True, 3000, links), 'T', 4096))
    for nfill in (10, 11, 12, 13, 14, 15, 16, 17, 18, 19, 20):
        cs.append(mk((True, True, True, False, False, nfill, False, 2049, 'idju'), 'T', 4000))
        cs.append(mk((False, False, True, True, False, nfill, True, 2049, 'i'), 'T', 2050))
    # other targets and refusals
    et = (True, True, True, False, True, 2, False, 5000, 'i')
    for tgt, ln in (('BOOT', 4096), ('BOOT', 2049), ('BOOT', 4097), ('BOOTCAT', 2048), ('BOOTCAT', 1), ('T', 4097),
                    ('DIR', 2048), ('DIR', 0), ('MISSING', 10), ('ZZZ', 2500), ('LINK', 6000), ('DLINK', 4100)):
        cs.append(mk(et, tgt, ln))
    for mode in ('rb', 'bytesio', 'r+b'):
        cs.append(mk(plain + (5000, 'i'), 'T', 4500, mode=mode))
        cs.append(mk(plain + (5000, 'i'), 'T', 9000, mode=mode))
    # an fp that holds more / fewer bytes than `length`
    for fp_len in (6000, 4200, 3000, 2048, 100, 0):
        cs.append(mk(full + (5000, 'idju'), 'T', 4200, fp_len=fp_len))
    # a second / third call in the same session: the state is the object graph the first call left behind
    for pre, ln in (((4200,), 5000), ((4097, 6144), 4100), ((5000,), 5000), ((6144,), 8000)):
        cs.append(mk(full + (5000, 'idju'), 'T', ln, pre=pre))
        cs.append(mk(plain + (5000, 'i'), 'LINK', ln, pre=pre))
    cs.append(mk(plain + (0, ''), 'T', -5))
    cs.append(mk(plain + (0, ''), 'T', -2048))
    cs.append(mk(plain + (0, 'i'), 'T', -2049))
    return cs


def random_case(rng):
    joliet, udf, rr = rng.random() < 0.5, rng.random() < 0.5, rng.random() < 0.5
    xa = rng.random() < 0.2
    et = rng.random() < 0.15
    nfill = rng.choice([0, 1, 5, 20, 30, 40, 43, 44, 45, 46, 47, 60, 88, 89, 90, 91, 92, 93])
    if rr or joliet:
        nfill = rng.choice([0, 3, 8, 12, 14, 15, 16, 17, 18, 22, 25, 30, 31, 32, 33, 40])
    subdir = rng.random() < 0.5
    size = rng.choice(SIZES + [4096, 4097, 6144, 10000])
    links = ''.join(k for k in 'idju' if rng.random() < 0.4)
    cfg = (joliet, udf, rr, xa, et, nfill, subdir, size, links)
    r = rng.random()
    if r < 0.75:
        n = -(-size // LBS)
        lo, hi = ((n - 1) * LBS + 1, n * LBS) if n else (0, 0)
        ln = rng.choice([lo, hi, size, rng.randint(lo, hi), rng.randint(lo, hi)])
    else:
        ln = rng.choice([x for _, x in new_lengths(size)])
    tgt = 'T'
    r = rng.random()
    if r < 0.1 and 'i' in links:
        tgt = 'LINK'
    elif r < 0.2 and 'd' in links:
        tgt = 'DLINK'
    elif r < 0.25 and et:
        tgt = 'BOOT'
    fp_len = ln
    if rng.random() < 0.1:
        fp_len = max(0, ln + rng.choice([-1, 1, -2048, 2048, -ln]))
    mode = 'r+b' if rng.random() < 0.9 else rng.choice(['rb', 'bytesio'])
    pre = ()
    if mode != 'rb' and rng.random() < 0.15:
        n = -(-size // LBS)
        pre = tuple(rng.randint((n - 1) * LBS + 1, n * LBS) if n else 0 for _ in range(rng.choice([1, 2])))
    return mk(cfg, tgt, ln, fp_len=fp_len, mode=mode, pre=pre)


def cases(seed, n):
    cs = boundary_cases()[:n]
    rng = random.Random(seed)
    while len(cs) < n:
        cs.append(random_case(rng))
    return cs


# ------------------------------------------------------------------------------------------ Coq terms

def zl(b):
    return '[' + '; '.join(str(x) for x in b) + ']'


def rle(b):
    """[(n, v, literal)]: n copies of v followed by the literal bytes"""
    out, i, n = [], 0, len(b)
    cur_n, cur_v, lit = 0, 0, []
    while i < n:
        j = i
        while j < n and b[j] == b[i]:
            j += 1
        if j - i >= 12:
            if cur_n or lit:
                out.append((cur_n, cur_v, lit))
            cur_n, cur_v, lit = j - i, b[i], []
        else:
            lit.extend(b[i:j])
        i = j
    if cur_n or lit:
        out.append((cur_n, cur_v, lit))
    return '[' + '; '.join('(%d, %d, %s)' % (a, v, zl(l)) for a, v, l in out) + ']'


def coq_bool(x):
    return 'true' if x else 'false'


def coq_z(x):
    return '(%d)' % x if x < 0 else '%d' % x


def coq_drec(rec):
    xa = rec.xa_record.record() if rec.xa_record is not None else b''
    rr = rec.rock_ridge.record_dr_entries() if rec.rock_ridge is not None else b''
    return '(mk_drec %d %d %s %s %d %d %d %d %s %s)' % (
        rec.xattr_len, rec._extent_location(), coq_z(rec.data_length), zl(rec.date.record()), rec.file_flags,
        rec.file_unit_size, rec.interleave_gap_size, rec.seqnum, zl(rec.file_ident), zl(xa + rr))


def coq_longad(a):
    return '(mk_longad %d %d %d %s)' % (a.extent_length, a.log_block_num, a.part_ref_num, zl(a.impl_use))


def coq_ad(a):
    if isinstance(a, udfmod.UDFShortAD):
        return '(ADShort (mk_shortad %d %d %d))' % (a.extent_length, a.extent_type, a.log_block_num)
    if isinstance(a, udfmod.UDFLongAD):
        return '(ADLong %s)' % coq_longad(a)
    return '(ADInline %d %d %d)' % (a.extent_length, a.log_block_num, a.offset)


def coq_fentry(e):
    t, i = e.desc_tag, e.icb_tag
    tag = '(mk_utag %d %d %d %d %s)' % (t.tag_ident, t.desc_version, t.tag_serial_number, t.tag_location,
                                         coq_z(t.desc_crc_length))
    icb = '(mk_icbtag %d %d %d %d %d %d %d %d)' % (i.prior_num_direct_entries, i.strategy_type, i.strategy_param,
                                                  i.max_num_entries, i.file_type, i.parent_icb.logical_block_num,
                                                  i.parent_icb.part_ref_num, i.flags)
    return '(mk_fentry %s %s %d %d %d %d %d %d %s %s %s %s %s %d %d %s [%s])' % (
        tag, icb, e.uid, e.gid, e.perms, e.file_link_count, e.info_len, e.log_block_recorded,
        zl(e.access_time.record()), zl(e.mod_time.record()), zl(e.attr_time.record()),
        coq_longad(e.extended_attr_icb), zl(e.impl_ident.record()), e.unique_id, e.len_extended_attrs,
        zl(e.extended_attrs), '; '.join(coq_ad(a) for a in e.alloc_descs))


def coq_vd_expanded(vd):
    rec = vd.record()
    return '(mk_vdesc %d (expand %s) %d (expand %s) (expand %s))' % (
        vd.extent_location(), rle(rec[:80]), vd.space_size, rle(rec[88:830]), rle(rec[847:]))


class LogFP:
    """a file object that logs (position, bytes) of every write issued through it while `on`"""

    def __init__(self, fp):
        self._fp = fp
        self.log = []
        self.on = False

    def __getattr__(self, name):
        return getattr(self._fp, name)

    def write(self, b):
        if self.on:
            self.log.append((self._fp.tell(), bytes(b)))
        return self._fp.write(b)


TARGETS = {'T': 'TARGET.;1', 'LINK': 'TLINK.;1'}


def target_path(case):
    cfg = case['cfg']
    base = '/SUB' if cfg[6] else ''
    t = case['target']
    if t in TARGETS:
        return base + '/' + TARGETS[t]
    return {'DLINK': '/OTHER/DLINK.;1', 'BOOT': '/BOOT.;1', 'BOOTCAT': '/BOOT.CAT;1', 'DIR': '/OTHER',
            'MISSING': '/NOSUCH.;1', 'ZZZ': '/ZZZ.;1'}[t]


def run(case):
    """returns everything render needs; also used by the reproduction scripts"""
    src = build(case['cfg'])
    os.makedirs(WORK, exist_ok=True)
    scratch = os.path.join(WORK, 'scratch_%d.iso' % os.getpid())
    shutil.copyfile(src, scratch)
    before = open(scratch, 'rb').read()
    if case['mode'] == 'bytesio':
        raw = io.BytesIO(before)
    else:
        raw = open(scratch, case['mode'])
    fp = LogFP(raw)
    _pin(CLOCK1)
    iso = pycdlib.PyCdlib()
    iso.open_fp(fp)
    path = target_path(case)
    for k, ln in enumerate(case.get('pre', ())):
        _pin(CLOCK1 + 3600 * (k + 1))
        try:
            iso.modify_file_in_place(io.BytesIO(content(ln, 150 + k)), ln, path)
        except pycdlib.pycdlibexception.PyCdlibInvalidInput:
            pass    # a refused earlier call (another sector count for this target) changes nothing
    if case.get('pre'):
        raw.flush()
        before = raw.getvalue() if case['mode'] == 'bytesio' else open(scratch, 'rb').read()
    # ---- the model's state, from the object graph
    st = {}
    mode = getattr(fp, 'mode', None)
    try:
        child = iso._find_iso_record(utils.normpath(path))
    except pycdlib.pycdlibexception.PyCdlibInvalidInput:
        child = None
    ino = None
    if child is None:
        ch = 'ChNotFound'
    elif child.isdir:
        ch = '(ChDir %d)' % child.get_data_length()
    elif child.inode is None:
        ch = '(ChNoInode %d)' % child.get_data_length()
    else:
        ino = child.inode
        ch = '(ChFile %d)' % child.extent_location()
    linked, old_ranges = [], []
    if ino is not None:
        for rec, _ in ino.linked_records:
            if isinstance(rec, dr.DirectoryRecord):
                pe = 'None' if rec.parent is None else '(Some %d)' % rec.parent.extent_location()
                linked.append('LDr %s %s %d %d %d %d %s' % (
                    coq_bool(iso.joliet_vd is not None and rec.vd is iso.joliet_vd), pe, rec.extents_to_here,
                    rec.offset_to_here, rec.dr_len, rec.len_fi, coq_drec(rec)))
                if rec.parent is not None:
                    pos = (rec.parent.extent_location() + rec.extents_to_here - 1) * LBS + rec.offset_to_here - rec.dr_len
                    old_ranges.append((pos, rec.dr_len))
            elif isinstance(rec, udfmod.UDFFileEntry):
                linked.append('LFe %d %s' % (rec.extent_location(), coq_fentry(rec)))
                old_ranges.append((rec.extent_location() * LBS, LBS))
            elif isinstance(rec, eltorito.EltoritoEntry):
                linked.append('LEt')
            else:
                linked.append('LOther')
    vds = [iso.pvd] + ([iso.joliet_vd] if iso.joliet_vd is not None else []) + \
          ([iso.enhanced_vd] if iso.enhanced_vd is not None else [])
    for vd in vds:
        old_ranges.append((vd.extent_location() * LBS, LBS))
    state = '(mk_state %s %s %d %s %s [%s] %s %s %s)' % (
        coq_bool(iso._initialized), 'None' if mode is None else '(Some %s)' % zl(mode.encode('ascii')),
        iso.logical_block_size, ch, coq_z(ino.data_length if ino is not None else 0), '; '.join(linked),
        coq_vd_expanded(iso.pvd),
        'None' if iso.joliet_vd is None else '(Some %s)' % coq_vd_expanded(iso.joliet_vd),
        'None' if iso.enhanced_vd is None else '(Some %s)' % coq_vd_expanded(iso.enhanced_vd))
    # ---- the call
    data = content(case['fp_len'], 200)
    _pin(CLOCK2)
    now = dates.VolumeDescriptorDate()
    now.new(CLOCK2)
    fp.on = True
    exc = None
    try:
        payload = io.BytesIO(data)
        # the payload is read from its beginning wherever the caller left its position (a file object just filled by
        # write(), or reused from an earlier call, is at its end)
        payload.seek([0, len(data), len(data) // 2][(case['length'] + case['fp_len']) % 3])
        iso.modify_file_in_place(payload, case['length'], path)
    except Exception as e:  # noqa
        exc = e
    fp.on = False
    log = [(o, b) for o, b in fp.log]
    kind = 1 if exc is None else (2 if any(len(b) for _, b in log) else 0)
    raw.flush()
    after = raw.getvalue() if case['mode'] == 'bytesio' else open(scratch, 'rb').read()
    res = dict(state=state, data=data, now=now.record(), kind=kind, log=log, exc=exc, before=before, after=after,
               old_ranges=old_ranges, wf=ino is not None, iso=iso, raw=raw, scratch=scratch, path=path)
    return res


def render(case):
    r = run(case)
    try:
        r['iso'].close()
    except Exception:  # noqa
        pass
    if case['mode'] != 'bytesio':
        r['raw'].close()
    logged = '; '.join('(%d, %s)' % (o, rle(b)) for o, b in r['log'])
    old = '; '.join('(%d, %s)' % (o, rle(r['before'][o:o + n])) for o, n in r['old_ranges'])
    return '(%s, %s, %s, %s, %d, [%s], [%s], %s)' % (r['state'], coq_z(case['length']), rle(r['data']), zl(r['now']),
                                                    r['kind'], logged, old, coq_bool(r['wf']))


HEADER = ('From Coq Require Import ZArith List Bool.\nImport ListNotations.\n'
          'From PV.Model Require Import Codec Udf InPlace.\nLocal Open Scope Z_scope.\n')


def main():
    seed, n = int(sys.argv[1]), int(sys.argv[2])
    outdir = sys.argv[3] if len(sys.argv) > 3 else os.path.join(WORK, 'cases_%d' % seed)
    os.makedirs(outdir, exist_ok=True)
    cs = cases(seed, n)
    shard, k = 60, 0
    stats = {0: 0, 1: 0, 2: 0}
    for i in range(0, len(cs), shard):
        texts = []
        for c in cs[i:i + shard]:
            t = render(c)
            texts.append(t)
        with open(os.path.join(outdir, 'S%d.v' % k), 'w') as f:
            f.write(HEADER)
            f.write('Definition cases : list ip_case := [\n%s].\n' % ';\n'.join(texts))
            f.write('Eval vm_compute in bad_inplace_cases 0 cases.\n')
        k += 1
    print('%d cases in %d shards under %s' % (len(cs), k, outdir))


if __name__ == '__main__':
    main()
