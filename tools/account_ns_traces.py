#!/venv/bin/python
"""Differential test of coq/theories/Model/AccountNs.v against the real pycdlib.

Image: PyCdlib.new(interchange_level=3, joliet=3).  Runs edit histories (add_fp / add_directory /
add_hard_link / rm_hard_link / rm_file / rm_directory with ISO9660 and/or Joliet paths, valid and
invalid) and records after every operation

    outcome: 0 accepted, 1 refused with nothing changed, 2 refused LATE (PyCdlibInvalidInput
             although part of the edit had been applied; the history stops there),
    [pvd.space_size, joliet_vd.space_size, pvd path table size/extents, joliet path table
     size/extents, sum of ISO9660 directory lengths, sum of Joliet directory lengths,
     len(iso.inodes)],
    sorted list of (inode data length, number of linked records),
    end of the extents assigned by _reshuffle_extents (-1 when it raises, i.e. after a late refusal),
    the view of both hierarchies: depth first, children in directory order,
        (path as list of identifiers, 0 directory / 1 file, index of the inode in iso.inodes);
        in a consistent state the same view is also read through list_children() and compared.

It emits a Coq file with one Example per history stating that AccountNs.nrun_probe / nrun_flags /
nrun_ends / nrun_views compute exactly these values; the Examples are closed by vm_compute.

usage:  PYTHONPATH=/repo /venv/bin/python /verif/tools/account_ns_traces.py OUT.v SPEC [SPEC ...]
        SPEC = scenario | example | late_scenario | late_scenario_dir | late_scenario_rmdir |
               SEED:NOPS | SEED:NOPS:clean
check:  cd /verif/coq && coqc -q -Q theories PV -Q <dir of OUT.v> Tmp OUT.v
Write OUT.v OUTSIDE /verif/coq/theories: it depends on the behaviour of the library.
Interface for a harness: Runner (ops/probes/inos/flags/ends/views), scenario, late_scenario,
random_history, coq_bytes, coq_pairs, coq_view.
"""
import collections
import io
import random
import sys

sys.path.insert(0, '/repo')
import pycdlib  # noqa: E402
from pycdlib import pycdlibexception  # noqa: E402

BLOCK = 2048


def cdiv(a, b):
    return -(-a // b)


def walk_dirs(root):
    q = collections.deque([root])
    out = []
    while q:
        d = q.popleft()
        out.append(d)
        for c in d.children[2:]:
            if c.is_dir():
                q.append(c)
    return out


def view_of(iso, root):
    """Depth first over the object graph, children in directory order."""
    index = {id(ino): k for k, ino in enumerate(iso.inodes)}
    out = []

    def rec(pre, d):
        for c in d.children[2:]:
            p = pre + (c.file_ident,)
            if c.is_dir():
                out.append((p, 0, 0))
                rec(p, c)
            else:
                out.append((p, 1, index.get(id(c.inode), -1)))
    rec((), root)
    return out


def api_view(iso, joliet):
    """The same view read through the public API (list_children)."""
    index = {id(ino): k for k, ino in enumerate(iso.inodes)}
    out = []

    def rec(pre, path):
        kw = {'joliet_path': path} if joliet else {'iso_path': path}
        for c in iso.list_children(**kw):
            if c is None or c.is_dot() or c.is_dotdot():
                continue
            ident = c.file_identifier()
            p = pre + (ident,)
            name = ident.decode('utf-16_be') if joliet else ident.decode('ascii')
            sub = (path.rstrip('/') + '/' + name)
            if c.is_dir():
                out.append((p, 0, 0))
                rec(p, sub)
            else:
                out.append((p, 1, index.get(id(c.inode), -1)))
    rec((), '/')
    return out


def probe(iso):
    idirs = walk_dirs(iso.pvd.root_directory_record())
    jdirs = walk_dirs(iso.joliet_vd.root_directory_record())
    try:
        iso._reshuffle_extents()  # what write_fp() / force_consistency() would do
        end = 16 + 1 + 1 + 1 + 1 + 2 * iso.pvd.path_table_num_extents + 2 * iso.joliet_vd.path_table_num_extents
        for d in idirs + jdirs:
            end = max(end, d.extent_location() + cdiv(d.data_length, BLOCK))
        for ino in iso.inodes:
            if ino.get_data_length() > 0:
                end = max(end, ino.extent_location() + cdiv(ino.get_data_length(), BLOCK))
    except pycdlibexception.PyCdlibInternalError:
        end = -1
    pr = [iso.pvd.space_size, iso.joliet_vd.space_size,
          iso.pvd.path_tbl_size, iso.pvd.path_table_num_extents,
          iso.joliet_vd.path_tbl_size, iso.joliet_vd.path_table_num_extents,
          sum(d.data_length for d in idirs), sum(d.data_length for d in jdirs), len(iso.inodes)]
    inos = sorted((ino.get_data_length(), len(ino.linked_records)) for ino in iso.inodes)
    view = (view_of(iso, iso.pvd.root_directory_record()), view_of(iso, iso.joliet_vd.root_directory_record()))
    if end >= 0:
        if api_view(iso, False) != view[0] or api_view(iso, True) != view[1]:
            raise RuntimeError('list_children() view differs from the object graph')
    return pr, inos, end, view


def coq_bytes(b):
    return '[' + '; '.join(str(x) for x in b) + ']'


def coq_path(comps):
    return '[' + '; '.join(coq_bytes(c) for c in comps) + ']'


def coq_pairs(ps):
    return '[' + '; '.join('(%d, %d)' % p for p in ps) + ']'


def coq_view1(v):
    return '[' + '; '.join('(%s, %d, %d)' % (coq_path(p), k, i) for p, k, i in v) + ']'


def coq_view(v):
    return '(%s, %s)' % (coq_view1(v[0]), coq_view1(v[1]))


def coq_opt_pn(x):
    """x = None | (dir tuple, name bytes)"""
    if x is None:
        return 'None'
    return '(Some (%s, %s))' % (coq_path(x[0]), coq_bytes(x[1]))


def coq_opt_p(x):
    return 'None' if x is None else '(Some %s)' % coq_path(x)


def lib_path(comps):
    return '/' + '/'.join(x.decode('ascii') for x in comps)


NS = {'iso': 'NIso', 'jol': 'NJol'}


class Runner:
    """Executes operations against pycdlib and records what the Coq model must reproduce.
    Path components and names are ASCII bytes; Joliet ones are the UTF-8 (= ASCII) names."""

    def __init__(self):
        self.iso = pycdlib.PyCdlib()
        self.iso.new(interchange_level=3, joliet=3)
        self.first = probe(self.iso)
        self.ops, self.probes, self.inos, self.flags, self.ends, self.views = [], [], [], [], [], []
        self.dead = False       # a late refusal has happened: the library state is inconsistent

    def do(self, op):
        if self.dead:
            return None
        iso = self.iso
        kind = op[0]
        if kind == 'AddFile':
            _, i, j, ln = op
            self.ops.append('NAddFile %s %s (%d)' % (coq_opt_pn(i), coq_opt_pn(j), ln))
            kw = {}
            if i is not None:
                kw['iso_path'] = lib_path(i[0] + (i[1],))
            if j is not None:
                kw['joliet_path'] = lib_path(j[0] + (j[1],))

            def call():
                iso.add_fp(io.BytesIO(b''), ln, **kw)
        elif kind == 'AddDir':
            _, i, j = op
            self.ops.append('NAddDir %s %s' % (coq_opt_pn(i), coq_opt_pn(j)))
            kw = {}
            if i is not None:
                kw['iso_path'] = lib_path(i[0] + (i[1],))
            if j is not None:
                kw['joliet_path'] = lib_path(j[0] + (j[1],))

            def call():
                iso.add_directory(**kw)
        elif kind == 'AddLink':
            _, sns, src, dns, d, nm = op
            self.ops.append('NAddLink %s %s %s %s %s' % (NS[sns], coq_path(src), NS[dns], coq_path(d), coq_bytes(nm)))
            kw = {('iso_old_path' if sns == 'iso' else 'joliet_old_path'): lib_path(src),
                  ('iso_new_path' if dns == 'iso' else 'joliet_new_path'): lib_path(d + (nm,))}

            def call():
                iso.add_hard_link(**kw)
        elif kind in ('RmLink', 'RmFile'):
            _, ns, d, nm = op
            self.ops.append('N%s %s %s %s' % (kind, NS[ns], coq_path(d), coq_bytes(nm)))
            kw = {('iso_path' if ns == 'iso' else 'joliet_path'): lib_path(d + (nm,))}

            def call():
                if kind == 'RmLink':
                    iso.rm_hard_link(**kw)
                else:
                    iso.rm_file(**kw)
        else:
            _, i, j = op
            self.ops.append('NRmDir %s %s' % (coq_opt_p(i), coq_opt_p(j)))
            kw = {}
            if i is not None:
                kw['iso_path'] = lib_path(i)
            if j is not None:
                kw['joliet_path'] = lib_path(j)

            def call():
                iso.rm_directory(**kw)
        before = self.probes[-1:] and (self.probes[-1], self.views[-1]) or (self.first[0], self.first[3])
        try:
            call()
            flag = 0
        except pycdlibexception.PyCdlibInvalidInput:
            flag = 1
        pr, inos, end, view = probe(iso)
        if flag == 1 and (pr, view) != before:
            flag = 2
            self.dead = True
        self.probes.append(pr)
        self.inos.append(inos)
        self.flags.append(flag)
        self.ends.append(end)
        self.views.append(view)
        return flag

    def emit(self, f, name, comment):
        nclean = len([x for x in self.flags if x != 2])
        f.write('(* %s *)\n' % comment)
        f.write('Definition %s_ops : list nop :=\n  [%s].\n\n' % (name, ';\n   '.join(self.ops)))
        f.write('Example %s :\n  nprobe ninit = %s /\\ nlayout_end ninit = %d /\\\n'
                % (name, coq_bytes(self.first[0]), self.first[2]))
        f.write('  nrun_probe %s_ops =\n  [%s] /\\\n'
                % (name, ';\n   '.join('(%s, %s)' % (coq_bytes(p), coq_pairs(i))
                                       for p, i in zip(self.probes, self.inos))))
        f.write('  nrun_flags %s_ops =\n  %s /\\\n' % (name, coq_bytes(self.flags)))
        f.write('  firstn %d (map snd (nrun_ends %s_ops)) =\n  %s /\\\n' % (nclean, name, coq_bytes(self.ends[:nclean])))
        f.write('  forallb (fun p => fst p =? snd p) (firstn %d (nrun_ends %s_ops)) = true /\\\n' % (nclean, name))
        f.write('  nrun_views %s_ops =\n  [%s].\n' % (name, ';\n   '.join(coq_view(v) for v in self.views)))
        f.write('Proof. vm_compute. repeat split; reflexivity. Qed.\n\n')
        print('%s: %d ops, %d accepted, %d late, final %s %s end %d'
              % (name, len(self.ops), self.flags.count(0), self.flags.count(2), self.probes[-1],
                 self.inos[-1], self.ends[-1]))

    # helpers for generators
    def names(self, joliet):
        root = (self.iso.joliet_vd if joliet else self.iso.pvd).root_directory_record()
        files, dirs = [], [()]
        q = collections.deque([((), root)])
        while q:
            p, d = q.popleft()
            for c in d.children[2:]:
                ident = c.file_ident.decode('utf-16_be').encode('ascii') if joliet else c.file_ident
                if c.is_dir():
                    dirs.append(p + (ident,))
                    q.append((p + (ident,), c))
                else:
                    files.append((p, ident))
        return files, dirs


ISO_ALPHA = b'ABCDEFGHIJKLMNOPQRSTUVWXYZ0123456789_'
JOL_ALPHA = b'abcdefghijklmnopqrstuvwxyz ABC.-0123456789'


def gen_iso_name(rng, isdir, long_names):
    n = rng.choice([120, 200, 207, 208, 219, 222]) if (long_names and rng.random() < 0.5) else rng.choice([1, 1, 2, 3])
    base = bytes(rng.choice(ISO_ALPHA) for _ in range(n))
    if isdir:
        return base
    r = rng.random()
    if r < 0.5:
        return base + b';1'
    if r < 0.6:
        return base + b'.' + bytes(rng.choice(ISO_ALPHA) for _ in range(rng.choice([0, 1, 3]))) + b';1'
    if r < 0.63:
        return base.lower()          # invalid characters
    return base


def gen_jol_name(rng, long_names):
    n = rng.choice([30, 60, 64, 65]) if (long_names and rng.random() < 0.5) else rng.choice([1, 1, 2, 3])
    return bytes(rng.choice(JOL_ALPHA.replace(b'.', b'x')) for _ in range(1)) + \
        bytes(rng.choice(JOL_ALPHA) for _ in range(n - 1))


def random_history(run, seed, nops, late_ok=True):
    """seed % 3 == 1: long names (directories overflow and shrink); seed % 3 == 2: more directories.
    A late refusal (outcome 2) ends the history; with late_ok=False the generator avoids the
    combinations that cause one."""
    rng = random.Random(seed)
    long_names = (seed % 3 == 1)
    many_dirs = (seed % 3 == 2)
    for _ in range(nops):
        if run.dead:
            break
        ifiles, idirs = run.names(False)
        jfiles, jdirs = run.names(True)
        r = rng.random()
        bogus = rng.random() < (0.10 if late_ok else 0.0)
        bogus_i = rng.random() < 0.06

        def pick_iso(isdir):
            d = rng.choice(idirs) + ((b'NOPE',) if bogus_i else ())
            nm = gen_iso_name(rng, isdir, long_names)
            if ifiles and rng.random() < 0.06:
                d, nm = rng.choice(ifiles)
            return (d, nm)

        def pick_jol():
            d = rng.choice(jdirs) + ((b'nope',) if bogus else ())
            nm = gen_jol_name(rng, long_names)
            if not late_ok and len(nm) > 64:
                nm = nm[:64]
            if late_ok and jfiles and rng.random() < 0.06:
                d, nm = rng.choice(jfiles)
            return (d, nm)
        if r < 0.20:
            form = rng.random()
            i = pick_iso(False) if form < 0.8 else None
            j = pick_jol() if (form < 0.6 or form >= 0.8) else None
            if rng.random() < 0.02:
                i = j = None
            ln = rng.choice([0, 0, 1, 2047, 2048, 2049, 4096, 100000, 4294965248])
            run.do(('AddFile', i, j, ln))
        elif r < (0.36 if many_dirs else 0.28):
            form = rng.random()
            i = pick_iso(True) if form < 0.8 else None
            j = pick_jol() if (form < 0.6 or form >= 0.8) else None
            run.do(('AddDir', i, j))
        elif r < 0.60:
            sns = rng.choice(['iso', 'jol'])
            files, dirs = (ifiles, idirs) if sns == 'iso' else (jfiles, jdirs)
            r2 = rng.random()
            if files and r2 < 0.86:
                sd, sn = rng.choice(files)
                src = sd + (sn,)
            elif r2 < 0.93:
                src = rng.choice(dirs)
            else:
                src = rng.choice(dirs) + (b'MISSING',)
            dns = rng.choice(['iso', 'jol'])
            if dns == 'iso':
                d, nm = pick_iso(False)
            else:
                d = rng.choice(jdirs) + ((b'nope',) if rng.random() < 0.08 else ())
                nm = gen_jol_name(rng, long_names)
                if jfiles and rng.random() < 0.06:
                    d, nm = rng.choice(jfiles)
            run.do(('AddLink', sns, src, dns, d, nm))
        elif r < 0.90:
            ns = rng.choice(['iso', 'jol'])
            files, dirs = (ifiles, idirs) if ns == 'iso' else (jfiles, jdirs)
            if files and rng.random() < 0.9:
                d, nm = rng.choice(files)
            elif len(dirs) > 1 and rng.random() < 0.5:
                dd = rng.choice(dirs[1:])
                d, nm = dd[:-1], dd[-1]
            else:
                d, nm = rng.choice(dirs), b'MISSING'
            run.do(('RmLink' if r < 0.78 else 'RmFile', ns, d, nm))
        else:
            form = rng.random()

            def pick_dir(dirs, allow_bogus):
                if len(dirs) == 1 or (allow_bogus and rng.random() < 0.15):
                    return rng.choice(dirs) + (b'MISSING',)
                return rng.choice(dirs[1:])
            i = pick_dir(idirs, True) if form < 0.8 else None
            j = pick_dir(jdirs, late_ok or i is None) if (form < 0.6 or form >= 0.8) else None
            if i is not None and rng.random() < 0.04:
                i = ()
            if not late_ok and i is not None and j is not None:
                # avoid a late refusal: the Joliet directory must be removable
                jroot = run.iso.joliet_vd.root_directory_record()
                node = jroot
                for comp in j:
                    node = next((c for c in node.children[2:] if c.file_ident == comp.decode().encode('utf-16_be')), None)
                    if node is None:
                        break
                if node is None or not node.is_dir() or len(node.children) > 2:
                    j = None
            run.do(('RmDir', i, j))


def scenario(run):
    """A fixed CLEAN history: contents with names in both namespaces, links across the namespaces,
    Joliet-only and ISO9660-only entries, early refusals, rm_hard_link down to the last name in the
    other namespace, rm_file removing the names in both namespaces."""
    run.do(('AddFile', ((), b'A.;1'), ((), b'a.txt'), 5000))
    run.do(('AddDir', ((), b'D'), ((), b'dir')))
    run.do(('AddFile', ((b'D',), b'B.;1'), None, 2049))              # ISO9660 only
    run.do(('AddFile', None, ((b'dir',), b'c'), 0))                   # Joliet only, empty
    run.do(('AddDir', None, ((b'dir',), b'only joliet')))
    run.do(('AddDir', ((b'D',), b'E'), None))
    run.do(('AddLink', 'iso', (b'D', b'B.;1'), 'jol', (b'dir',), b'b link'))     # across
    run.do(('AddLink', 'jol', (b'dir', b'c'), 'iso', (), b'C.;1'))               # across, empty content
    run.do(('AddLink', 'jol', (b'a.txt',), 'jol', (b'dir', b'only joliet'), b'a2'))
    run.do(('AddLink', 'iso', (b'D',), 'jol', (), b'x'))              # a directory: refused
    run.do(('AddLink', 'jol', (b'dir',), 'iso', (), b'X.;1'))         # a directory: refused
    run.do(('AddLink', 'iso', (b'A.;1',), 'jol', (), b'a.txt'))       # duplicate: refused
    run.do(('AddLink', 'iso', (b'A.;1',), 'jol', (), b'y' * 65))      # too long: refused
    run.do(('AddFile', ((b'Q',), b'Z.;1'), ((), b'z'), 7))            # ISO9660 parent missing: refused early
    run.do(('AddFile', None, None, 7))                                # no path: refused
    run.do(('AddDir', ((), b'D'), ((), b'other')))                    # ISO9660 duplicate: refused early
    run.do(('RmDir', (b'D',), (b'dir',)))                             # ISO9660 not empty: refused early
    run.do(('RmLink', 'iso', (), b'A.;1'))                            # content stays (a.txt, a2)
    run.do(('RmLink', 'jol', (), b'a.txt'))
    run.do(('RmLink', 'jol', (b'dir', b'only joliet'), b'a2'))        # last name: 3 blocks released
    run.do(('RmFile', 'jol', (b'dir',), b'b link'))                   # both names of B's content
    run.do(('RmFile', 'iso', (), b'C.;1'))                            # both names of the empty content
    run.do(('RmDir', (b'D', b'E'), (b'dir', b'only joliet')))
    run.do(('RmDir', (b'D',), (b'dir',)))


def ptr_scenario(run):
    """A fixed CLEAN history: enough directories with long names in both namespaces to take BOTH path tables across
    4096 bytes (ISO9660: 8+207 per record, Joliet: 8+128 per record) and back."""
    def iname(i):
        return b'D' * 205 + bytes([65 + i // 26, 65 + i % 26])

    def jname(i):
        return b'j' * 62 + bytes([97 + i // 26, 97 + i % 26])
    for i in range(34):
        run.do(('AddDir', ((), iname(i)), ((), jname(i))))
    run.do(('AddFile', ((iname(3),), b'F.;1'), ((jname(3),), b'f'), 2049))
    for i in [33, 0, 20, 32, 31, 30, 29, 28]:
        run.do(('RmDir', (iname(i),), (jname(i),)))
    run.do(('RmFile', 'jol', (jname(3),), b'f'))
    run.do(('RmDir', (iname(3),), (jname(3),)))


def late_scenario(run):
    """add_fp whose Joliet parent is missing: refused, but the ISO9660 record stays behind."""
    run.do(('AddDir', ((), b'D'), ((), b'dir')))
    run.do(('AddFile', ((b'D',), b'A.;1'), ((b'nope',), b'a'), 3000))


def late_scenario_dir(run):
    run.do(('AddDir', ((), b'D'), ((b'nope',), b'd')))


def late_scenario_rmdir(run):
    run.do(('AddDir', ((), b'D'), ((), b'dir')))
    run.do(('RmDir', (b'D',), (b'zz',)))


def example(run):
    """The history nex_ops of Proofs/AccountNsRefineRun.v (Example nex_history)."""
    A, B, Cn, D, E = b'A;1', b'B;1', b'C;1', b'D', b'E'
    for op in [('AddFile', ((), A), ((), b'a'), 5000), ('AddDir', ((), D), ((), b'd')),
               ('AddFile', ((D,), B), None, 2049), ('AddFile', None, ((b'd',), b'c'), 0),
               ('AddDir', None, ((b'd',), b'o')), ('AddDir', ((D,), E), None),
               ('AddLink', 'iso', (D, B), 'jol', (b'd',), b'b'),
               ('AddLink', 'jol', (b'd', b'c'), 'iso', (), Cn),
               ('AddLink', 'jol', (b'a',), 'jol', (b'd', b'o'), b'2'),
               ('AddLink', 'iso', (D,), 'jol', (), b'x'), ('AddLink', 'iso', (A,), 'jol', (), b'a'),
               ('AddFile', ((b'Q',), b'Z;1'), ((), b'z'), 7), ('AddFile', None, None, 7),
               ('RmDir', (D,), (b'd',)),
               ('RmLink', 'iso', (), A), ('RmLink', 'jol', (), b'a'), ('RmLink', 'jol', (b'd', b'o'), b'2'),
               ('RmFile', 'jol', (b'd',), b'b'), ('RmFile', 'iso', (), Cn),
               ('RmDir', (D, E), (b'd', b'o')), ('RmDir', (D,), (b'd',))]:
        run.do(op)


FIXED = {'scenario': scenario, 'example': example, 'ptr_scenario': ptr_scenario, 'late_scenario': late_scenario, 'late_scenario_dir': late_scenario_dir,
         'late_scenario_rmdir': late_scenario_rmdir}


def main():
    out = sys.argv[1]
    specs = sys.argv[2:]
    with open(out, 'w') as f:
        f.write('(* GENERATED by /verif/tools/account_ns_traces.py %s *)\n' % ' '.join(specs))
        f.write('From Coq Require Import ZArith List Bool.\n')
        f.write('From PV.Model Require Import Account AccountLinks AccountNs.\n')
        f.write('Import ListNotations.\nLocal Open Scope Z_scope.\n\n')
        for spec in specs:
            run = Runner()
            if spec in FIXED:
                FIXED[spec](run)
                run.emit(f, 'n' + spec, 'fixed history %s' % spec)
            else:
                parts = spec.split(':')
                seed, nops = int(parts[0]), int(parts[1])
                random_history(run, seed, nops, late_ok=(len(parts) < 3 or parts[2] != 'clean'))
                run.emit(f, 'ntrace_%d' % seed, 'random history, seed %d, %d operations' % (seed, nops))


if __name__ == '__main__':
    main()
