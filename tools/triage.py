"""Developer tool: run generated histories, shrink failures of write/reopen/view, print minimal cases."""
import sys, random, traceback, json
sys.path.insert(0, '/verif')
from harness import common, syslevel
common.setup_impl_path()
from harness.props import c01

def fails_write_reopen(cfg, ops, sizes):
    iso = cfg.new()
    for op in ops:
        syslevel.apply_op(iso, op, sizes)
    try:
        img = syslevel.write_image(iso)
        iso2 = syslevel.reopen(img)
        syslevel.api_view(iso2, cfg, lambda d, p: 0)
        iso2.close()
        return None
    except Exception as e:
        return type(e).__name__ + ':' + str(e)[:60]

seed = int(sys.argv[1]) if len(sys.argv) > 1 else 0
n = int(sys.argv[2]) if len(sys.argv) > 2 else 300
rng = random.Random(seed)
cfgs = syslevel.covering_configs(rng, 24)
seen = {}
for i in range(n):
    cfg = cfgs[i % len(cfgs)]
    ops, sizes = syslevel.gen_history(rng, cfg, rng.randrange(5, 30), allow_refusals=False)
    f = fails_write_reopen(cfg, ops, sizes)
    if f and f not in seen:
        small = syslevel.shrink_history(ops, lambda o: fails_write_reopen(cfg, o, sizes) == f)
        seen[f] = (cfg.key(), small)
        print('====', f, cfg.key())
        for op in small:
            print('   ', op)
print(len(seen), 'distinct failure kinds')
