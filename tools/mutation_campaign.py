#!/venv/bin/python
"""Automatic mutation campaign (a support tool for finding blind spots of the checks, not a proof step).
usage: mutation_campaign.py <n_mutants> <seed> [<out.json>]
Works on COPIES: /var/tmp/mutcamp/repo (git worktree of /repo HEAD) and /var/tmp/mutcamp/verif (copy of /verif with its
built .vo files); runs every check of the copy in quick tier with VERIF_REPO pointing at the mutated copy; for mutants that
no check reports, runs the repository's test suite to see whether the mutant would also pass it."""
import json
import os
import random
import re
import shutil
import subprocess
import sys

BASE = '/var/tmp/mutcamp'
REPO = BASE + '/repo'
VER = BASE + '/verif'
FILES = ['pycdlib/pycdlib.py', 'pycdlib/pycdlib.py', 'pycdlib/pycdlib.py', 'pycdlib/dr.py', 'pycdlib/udf.py', 'pycdlib/rockridge.py', 'pycdlib/headervd.py', 'pycdlib/inode.py',
         'pycdlib/eltorito.py', 'pycdlib/path_table_record.py']
RULES = [(r' > ', ' >= '), (r' >= ', ' > '), (r' < ', ' <= '), (r' <= ', ' < '), (r' \+ 1\b', ''), (r' - 1\b', ''), (r' == ', ' != '),
         (r'\bnot ', ''), (r' \+= ', ' -= '), (r' and ', ' or '), (r'\b0x[0-9a-fA-F]+\b', None), (r' // ', ' % ')]


def sh(cmd, **kw):
    return subprocess.run(cmd, shell=True, stdout=subprocess.PIPE, stderr=subprocess.STDOUT, text=True, **kw)


def setup():
    if not os.path.isdir(REPO):
        os.makedirs(BASE, exist_ok=True)
        sh('git -C /repo worktree add -q --detach %s HEAD' % REPO)
    sh('git -C %s checkout -q -- . && git -C %s checkout -q --detach $(git -C /repo rev-parse HEAD)' % (REPO, REPO))
    shutil.rmtree(VER, ignore_errors=True)
    sh('rsync -a --exclude .git --exclude replays --exclude .work/scratch-* /verif/ %s/' % VER)


def code_lines(path):
    """indices of lines that are code inside a function body (no comments, docstrings, raise messages, type comments)"""
    src = open(path).read().split('\n')
    out = []
    indoc = False
    for i, ln in enumerate(src):
        st = ln.strip()
        if st.count('"""') == 1:
            indoc = not indoc
            continue
        if indoc or not st or st.startswith('#') or st.startswith('raise ') or st.startswith('def ') or st.startswith('class ') \
                or st.startswith('"""') or 'PyCdlibInternalError' in st or '_initialized' in st or st.startswith('import ') or st.startswith('from '):
            continue
        if not ln.startswith('    '):
            continue
        out.append(i)
    return src, out


def make_mutant(rng):
    for _ in range(200):
        f = rng.choice(FILES)
        path = os.path.join(REPO, f)
        src, idx = code_lines(path)
        i = rng.choice(idx)
        ln = src[i]
        code = ln.split('  # ')[0]
        rules = [r for r in RULES if re.search(r[0], code)]
        if not rules:
            continue
        pat, rep = rng.choice(rules)
        m = rng.choice(list(re.finditer(pat, code)))
        if rep is None:
            v = int(m.group(0), 16)
            rep2 = hex(v + rng.choice([-1, 1])) if v > 1 else hex(v + 1)
        else:
            rep2 = rep
        new = code[:m.start()] + rep2 + code[m.end():] + ln[len(code):]
        if new == ln:
            continue
        src2 = list(src)
        src2[i] = new
        open(path, 'w').write('\n'.join(src2))
        if sh('/venv/bin/python -m py_compile %s' % path).returncode != 0:
            open(path, 'w').write('\n'.join(src))
            continue
        return {'file': f, 'line': i + 1, 'old': ln.strip(), 'new': new.strip()}
    return None


def run_checks():
    env = dict(os.environ, VERIF_REPO=REPO, VERIF_SEED='0', PYTHONPATH=REPO)
    ids = ['C%02d' % i for i in range(1, 21)]
    p = subprocess.run("printf '%s\\n' " + ' '.join(ids) + " | xargs -P 10 -I{} bash -c 'cd %s && timeout 900 ./check {} --tier quick > /var/tmp/mutcamp/log.{} 2>&1; echo {} $?'" % VER,
                       shell=True, stdout=subprocess.PIPE, stderr=subprocess.STDOUT, text=True, env=env)
    res = {}
    for ln in p.stdout.split('\n'):
        parts = ln.split()
        if len(parts) == 2 and parts[0].startswith('C'):
            res[parts[0]] = int(parts[1])
    return res


def main():
    n, seed = int(sys.argv[1]), int(sys.argv[2])
    out = sys.argv[3] if len(sys.argv) > 3 else '/var/tmp/mutcamp/results.json'
    rng = random.Random(seed)
    setup()
    results = json.load(open(out)) if os.path.exists(out) else []
    for k in range(n):
        sh('git -C %s checkout -q -- .' % REPO)
        m = make_mutant(rng)
        if m is None:
            continue
        res = run_checks()
        m['alarms'] = sorted(c for c, rc in res.items() if rc != 0)
        m['diff'] = sh('git -C %s diff' % REPO).stdout
        if not m['alarms']:
            t = sh('/venv/bin/python /verif/tools/baseline_check.py %s -n 8' % REPO)
            m['tests'] = t.stdout.strip().split('\n')[0]
        results.append(m)
        json.dump(results, open(out, 'w'), indent=1)
        print(k, m['file'], m['line'], m['old'][:50], '=>', m['new'][:50], '| alarms:', ','.join(m['alarms']) or 'NONE', '|', m.get('tests', ''), flush=True)
    sh('git -C %s checkout -q -- .' % REPO)


if __name__ == '__main__':
    main()
