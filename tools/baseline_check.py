#!/venv/bin/python
"""Run the repository's suite (in the given tree, default /repo) and compare with /root/.vp/BASELINE.json:
prints the stable_pass tests that no longer pass.  usage: baseline_check.py [tree] [-n N]"""
import json, subprocess, sys, tempfile, os
import xml.etree.ElementTree as ET
tree = sys.argv[1] if len(sys.argv) > 1 and not sys.argv[1].startswith('-') else '/repo'
par = []
if '-n' in sys.argv:
    par = ['-n', sys.argv[sys.argv.index('-n') + 1]]
base = json.load(open('/root/.vp/BASELINE.json'))
want = set(base['stable_pass'])
fd, xml = tempfile.mkstemp(suffix='.xml', dir='/var/tmp'); os.close(fd)
env = dict(os.environ, PYTHONPATH=tree)
for k in ('PYCDLIB_VERIF', 'PYCDLIB_TRACK_WRITES'):
    env.pop(k, None)
subprocess.run(['/venv/bin/python', '-m', 'pytest', '-ra', '-q', '-p', 'no:cacheprovider', '--timeout=900',
                '--continue-on-collection-errors', '--junitxml=' + xml] + par, cwd=tree, env=env,
               stdout=subprocess.DEVNULL, stderr=subprocess.DEVNULL)
passed = set()
for tc in ET.parse(xml).getroot().iter('testcase'):
    if not any(ch.tag in ('failure', 'error', 'skipped') for ch in tc):
        passed.add(tc.get('classname') + '::' + tc.get('name'))
os.unlink(xml)
missing = sorted(want - passed)
print('stable_pass: %d, passing now: %d, regressions: %d' % (len(want), len(want & passed), len(missing)))
for m in missing[:40]:
    print('  REGRESSION', m)
sys.exit(1 if missing else 0)
