#!/venv/bin/python
"""Differential test of coq/theories/Model/HybridParse.v against the real pycdlib: REOPENING a hybrid image.

Per case: a history of tools/hybrid_hist_cases.py (new -> edits -> add_eltorito (+EFI sections) -> add_isohybrid with
varied geometry / options incl. heads 255 / 256, sectors 63, part_entry 1-4, offsets, efi / mac, images above 256
and above 1024 cylinders) ending in an accepted write_fp of a hybrid image; the bytes are opened with open_fp and
    * the fields of the reopened `isohybrid_mbr` are recorded ([[-1]] when the image reopens as non-hybrid,
      [[-2]] when open_fp raised),
    * the reopened object is written again WITHOUT any edit and the hybrid regions (first 32768 bytes, length,
      backup GPT region) are compared with the first image (1 = identical),
    * an edit is made on the REOPENED object (add_directory / add_fp / rm_isohybrid + add_isohybrid), it is
      written, and the image is decoded (hybrid_hist_cases.decode).
HybridParse.bad_hybridparse_cases runs writer + parser of the model on the same history.

API (deterministic from the seed):  cases(seed, n) -> list of case dicts;  render(case) -> Coq term of type
HybridParse.pcase.   Command line:
    /venv/bin/python /verif/tools/hybrid_parse_cases.py OUTDIR SEED N [SHARD]
writes OUTDIR/hp_<seed>_<k>.v (SHARD <= 40 cases each) ending in
`Eval vm_compute in bad_hybridparse_cases 0 cases.` (must print `= []`).  Library: $VERIF_REPO (default /repo).
"""
import io
import os
import random
import sys

sys.path.insert(0, os.path.dirname(os.path.abspath(__file__)))
sys.path.insert(0, os.environ.get('VERIF_REPO', '/repo'))
import account_boot_traces as abt  # noqa: E402
import hybrid_hist_cases as hh  # noqa: E402
import pycdlib  # noqa: E402


def hdr_view(h):
    return [h.current_lba, h.backup_lba, h.first_usable_lba, h.last_usable_lba, h.partition_entries_lba, h.num_parts]


def parts_view(ps):
    out = []
    for p in ps:
        out += [p.first_lba, p.last_lba]
    return out


def fields_of(h):
    efi, mac = bool(h.efi), bool(h.mac)
    out = [[1 if h.header == h.MAC_AFP else 0],
           [h.rba, h.mbr_id, h.part_entry, h.bhead, h.bsect, h.bcyle, h.ptype, h.ehead, h.part_offset,
            h.geometry_heads, h.geometry_sectors, int(efi), h.efi_lba if efi else 0, h.efi_count if efi else 0,
            int(mac), h.mac_lba if mac else 0, h.mac_count if mac else 0]]
    if efi:
        apm = []
        for a in h.primary_gpt.apm_parts:
            apm += [a.map_count, a.start_block, a.block_count]
        out += [hdr_view(h.primary_gpt.header), parts_view(h.primary_gpt.parts), apm,
                hdr_view(h.secondary_gpt.header), parts_view(h.secondary_gpt.parts)]
    return out


def regions(img):
    """the bytes the hybrid writer is responsible for"""
    pr = []
    v = hh.decode(img, pr)
    tail = b''
    if v[3] and v[8][0] >= 0:
        tail = img[v[8][0]:]
    return (img[:32768], len(img), tail)


GEOMS = [(32, 64), (32, 64), (63, 255), (32, 256), (63, 256), (17, 16), (1, 1), (32, 1), (63, 1), (2, 3), (1, 64), (8, 1)]
BIG = [0, 0, 0, 300000, 700000, 1040000, 5000000, 9000000]


def build(rng):
    """-> (runner, nefi) with boot file, catalog, EFI sections and some extra data"""
    run = hh.HRunner()
    for _ in range(rng.randrange(0, 3)):
        run.hdo(('AddFile', (), rng.choice(hh.OTHER), rng.choice(hh.LENS)))
    big = rng.choice(BIG)
    if big:
        run.hdo(('AddFile', (), b'BIG.;1', big))
    bn = rng.choice(hh.BOOTNAMES)
    run.hdo(('AddSigFile', (), bn, rng.choice([68, 2048, 1000])))
    run.hdo(abt.el((bn,), ls=4, bit=rng.random() < 0.2))
    nefi = rng.choice([0, 0, 1, 1, 2, 2])
    for k in range(nefi):
        nm = hh.EFINAMES[k]
        run.hdo(('AddFile', (), nm, rng.choice([2048, 4096, 5000, 70000])))
        run.hdo(abt.el((nm,), ls=rng.choice([None, 1, 8]), efi=True))
    if rng.random() < 0.15:
        if run.hdo(abt.el((bn,), ls=4, efi=True)):
            nefi += 1
    return run, nefi


def hybrid_op(rng, nefi):
    gs, gh = rng.choice(GEOMS)
    mac = nefi >= 2 and rng.random() < 0.6
    efi = True if (nefi >= 1 and (mac or rng.random() < 0.75)) else None
    pe = rng.choice([1, 1, 1, 2, 3, 4])
    if efi and pe == 2:
        pe = rng.choice([1, 2, 4])          # part_entry 2 + efi: no active entry is left (kept sometimes)
    po = rng.choice([0, 0, 0, 0, 1, 16, 64])
    return ('AddHybrid', pe, rng.choice([None, 5, 0xcafef00d]), po, gs, gh,
            None if (efi or mac) else rng.choice([None, 0x17, 0x83]), mac, efi)


def one_case(rng, label):
    run, nefi = build(rng)
    if not run.hdo(hybrid_op(rng, nefi)):
        return None
    if not run.hdo(('Write',)) or not run.steps[-1][2]:
        return None
    out = io.BytesIO()
    run.iso.write_fp(out)
    img = out.getvalue()
    notes = []
    iso2 = pycdlib.PyCdlib()
    try:
        iso2.open_fp(io.BytesIO(img))
    except Exception as e:   # noqa: BLE001
        msg = 'open_fp raised %s: %s' % (type(e).__name__, e)
        try:
            from pycdlib import isohybrid
            isohybrid.IsoHybrid().parse(img[:32768])
        except Exception:   # noqa: BLE001
            return {'label': label, 'ops': list(run.steps), 'fields': [[-2]], 'same': 0, 'ops2': [], 'view2': [],
                    'notes': [msg]}
        # the hybrid parser accepts the bytes: open_fp failed elsewhere (the backup GPT was written over the
        # volume tail, known finding c12:gpt-backup-overwrites-volume-tail) -- not a case for this model
        view = hh.decode(img, [])
        vol = run.iso.pvd.space_size * 2048
        over = bool(view) and bool(view[3]) and 0 <= view[8][0] < vol
        print('DROPPED(%s) %s: %s (hybrid parse itself succeeds)' % ('tail-overwritten' if over else 'other', label, msg))
        return None
    h = iso2.isohybrid_mbr
    fields = [[-1]] if h is None else fields_of(h)
    same = 0
    view2 = []
    steps2 = []
    try:
        out2 = io.BytesIO()
        iso2.write_fp(out2)
        img2 = out2.getvalue()
        same = 1 if (h is not None and regions(img2) == regions(img)) else 0
        if same and img2 != img:
            notes.append('rewritten image differs outside the hybrid regions')
        if not same and h is not None:
            notes.append('rewrite differs: len %d -> %d, geometry written %sx%s reopened %dx%d' % (
                len(img), len(img2), run.steps[-2][0][5], run.steps[-2][0][4], h.geometry_heads, h.geometry_sectors))
    except Exception as e:   # noqa: BLE001
        notes.append('second write_fp raised %s: %s' % (type(e).__name__, e))
    if h is not None:
        run2 = hh.HRunner()
        run2.iso = iso2
        r = rng.random()
        if r < 0.4:
            ops2 = [('AddDir', (), b'NEWDIR')]
        elif r < 0.7:
            ops2 = [('AddFile', (), b'GROW.;1', rng.choice([5000, 300000, 2000000]))]
        else:
            ops2 = [('RmHybrid',), hybrid_op(rng, nefi)]
        ok = True
        for o in ops2:
            run2.hdo(o)
        ok = run2.hdo(('Write',))
        steps2 = list(run2.steps)
        if ok and steps2[-1][2]:
            view2 = steps2[-1][2]
        else:
            steps2, view2 = [], []
            notes.append('write after the edit on the reopened object failed / not hybrid: %s' % run2.notes[-1:])
    iso2.close()
    return {'label': label, 'ops': list(run.steps), 'fields': fields, 'same': same, 'ops2': steps2, 'view2': view2,
            'notes': notes + run.notes}


def cases(seed, n):
    out = []
    k = 0
    while len(out) < n and k < 20 * n:
        rng = random.Random('hp-%d-%d' % (seed, k))
        random.seed('hp-lib-%d-%d' % (seed, k))
        c = one_case(rng, 'hp-%d-%d' % (seed, k))
        k += 1
        if c is not None:
            out.append(c)
    return out


def coq_ops(steps):
    return '[' + ';\n     '.join(hh.coq_hop(o) for o, _, _ in steps) + ']'


def render(case):
    return '(%s,\n    %s, %d,\n    %s,\n    %s)' % (coq_ops(case['ops']), hh.coq_view(case['fields']), case['same'],
                                                    coq_ops(case['ops2']), hh.coq_view(case['view2']))


def write_shard(path, cs):
    with open(path, 'w') as f:
        f.write('From Coq Require Import ZArith List.\nFrom PV.Model Require Import AccountBoot Hybrid HybridHist HybridParse.\n'
                'Import ListNotations.\nLocal Open Scope Z_scope.\n')
        f.write('Definition cases : list pcase := [\n  %s\n].\n' % ';\n  '.join(render(c) for c in cs))
        f.write('Eval vm_compute in bad_hybridparse_cases 0 cases.\n')


def main():
    outdir, seed, n = sys.argv[1], int(sys.argv[2]), int(sys.argv[3])
    shard = min(int(sys.argv[4]) if len(sys.argv) > 4 else 40, 40)
    os.makedirs(outdir, exist_ok=True)
    cs = cases(seed, n)
    st = {'cases': len(cs), 'reopened_hybrid': 0, 'reopened_plain': 0, 'open_raised': 0, 'rewrite_same': 0,
          'rewrite_differs': 0, 'edited_views': 0, 'efi': 0, 'mac': 0}
    for c in cs:
        f = c['fields']
        st['open_raised'] += f == [[-2]]
        st['reopened_plain'] += f == [[-1]]
        if len(f) > 1:
            st['reopened_hybrid'] += 1
            st['efi'] += f[1][11]
            st['mac'] += f[1][14]
            st['rewrite_same' if c['same'] else 'rewrite_differs'] += 1
        st['edited_views'] += bool(c['view2'])
        for x in c['notes']:
            if not x.startswith('c12:'):
                print('NOTE %s: %s' % (c['label'], x))
    for k in range(0, len(cs), shard):
        write_shard(os.path.join(outdir, 'hp_%d_%d.v' % (seed, k // shard)), cs[k:k + shard])
    print(st)


if __name__ == '__main__':
    main()
