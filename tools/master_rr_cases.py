#!/venv/bin/python
"""Correspondence cases for coq/theories/Model/MasterRR.v (directory area + Rock Ridge continuation areas as bytes).

A case is an edit HISTORY (add_fp / add_directory / add_symlink / rm_file / rm_directory with Rock Ridge names, the
generators of /verif/tools/account_rr_traces.py plus a few of its own) on `iso.new(interchange_level=3,
rock_ridge=VERSION)` with time.time() pinned.  `render(case)` replays it on the real pycdlib, masters the image into
memory, finds the root record in the PVD and, with a tiny parser of its own, walks every directory extent (breadth first),
walks every System Use area by the length bytes, follows every CE entry and cuts out every directory extent and every
2048-byte continuation block.  The Coq term (type MasterRR.mrr_case) is

    (version code, [operations], date bytes, (root extent, root length),
     [(extent, run-length coded bytes)]   directories in walk order, then continuation blocks by ascending extent,
     expected view)

The expected view is what was GIVEN to the library (a shadow tree kept by this tool from the accepted operations:
identifier, Rock Ridge name, mode by kind, link count 2 + sub-directories / 1, symlink target) with the extents and
lengths the records of the image carry.  `MasterRR.bad_masterrr_cases 0 cases` lists the cases where the state reached
by AccountRR.rr_run is not well-formed, where `master_rr` does not produce exactly these bytes, where the independent
reader `read_rr` run on the LIBRARY'S bytes does not return the expected view, or where `mrr_view` differs from it.

    cases(seed, n) -> n histories (deterministic from the seed);  render(case) -> Coq term
    usage: /venv/bin/python /verif/tools/master_rr_cases.py SEED N [OUTDIR] [SHARD]
           (writes OUTDIR/S<k>.v, <= SHARD (default 25) cases each; check each with
            cd /verif/coq && coqc -q -Q theories PV -w -notation-overridden OUTDIR/S<k>.v   -- it must print `= []`)
"""
import bisect
import io
import os
import random
import struct
import sys
import time

REPO = os.environ.get('VERIF_REPO', '/repo')
os.environ.setdefault('PYCDLIB_TREE', REPO)
sys.path.insert(0, REPO)
sys.path.insert(1, os.path.dirname(os.path.abspath(__file__)))
import pycdlib  # noqa: E402
from pycdlib import pycdlibexception  # noqa: E402
import account_rr_traces as art  # noqa: E402   (history generators)
from master_cases import rle, zl  # noqa: E402   (run-length coding of the expected bytes)

BLOCK = 2048
CLOCK = 1700000000.0
VERSIONS = {'1.09': 109, '1.10': 110, '1.12': 112}
MODES = {'d': 0o040555, 'f': 0o0100444, 'l': 0o0120555}


def ipath(comps):
    return '/' + '/'.join(x.decode('latin-1') for x in comps)


class Shadow:
    """what was given: kind 'd' | 'f' | 'l', identifier, Rock Ridge name, target, children sorted like the library's"""

    def __init__(self, kind, name, rr=b'', target=b''):
        self.kind, self.name, self.rr, self.target, self.kids = kind, name, rr, target, []

    def find(self, comps):
        n = self
        for c in comps:
            n = next(k for k in n.kids if k.name == c)
        return n

    def add(self, child):
        names = [k.name for k in self.kids]
        self.kids.insert(bisect.bisect_left(names, child.name), child)

    def remove(self, name):
        self.kids = [k for k in self.kids if k.name != name]


class Runner:
    """the interface the generators of account_rr_traces expect: .version, .do(op) -> accepted"""

    def __init__(self, version):
        self.version = version
        self.iso = pycdlib.PyCdlib()
        self.iso.new(interchange_level=3, rock_ridge=version)
        self.ops = []
        self.root = Shadow('d', b'\x00')
        self.midwrite = None

    def do(self, op):
        iso, kind = self.iso, op[0]
        try:
            if kind == 'AddFile':
                _, d, nm, rr, ln = op
                iso.add_fp(io.BytesIO(b'\x5a' * ln), ln, ipath(d + (nm,)), rr_name=rr)
                self.root.find(d).add(Shadow('f', nm, rr.encode('utf-8')))
            elif kind == 'AddDir':
                _, d, nm, rr = op
                iso.add_directory(ipath(d + (nm,)), rr_name=rr)
                self.root.find(d).add(Shadow('d', nm, rr.encode('utf-8')))
            elif kind == 'AddSymlink':
                _, d, nm, rr, tg = op
                iso.add_symlink(symlink_path=ipath(d + (nm,)), rr_symlink_name=rr, rr_path=tg)
                self.root.find(d).add(Shadow('l', nm, rr.encode('utf-8'), tg.encode('utf-8')))
            elif kind == 'RmFile':
                _, d, nm = op
                iso.rm_file(ipath(d + (nm,)))
                self.root.find(d).remove(nm)
            else:
                _, p = op
                iso.rm_directory(ipath(p))
                self.root.find(p[:-1]).remove(p[-1])
            ok = True
        except pycdlibexception.PyCdlibInvalidInput:
            ok = False
        self.ops.append(op)
        if self.midwrite is not None and self.midwrite.random() < 0.15:
            iso.write_fp(io.BytesIO())          # an intermediate mastering must not change the state
        return ok


# ---------------------------------------------------------------------------------------- histories

def h_small(run, rng):
    """a few records of every kind, short and long names"""
    run.do(('AddDir', (), b'D1', 'dir1'))
    run.do(('AddFile', (), b'A.;1', 'a', 3))
    run.do(('AddFile', (b'D1',), b'F.;1', 'n' * rng.choice([100, 176, 200, 255, 300, 600]), 5))
    run.do(('AddSymlink', (b'D1',), b'L.;1', 'lnk', rng.choice(['/usr/' + 'a' * 300 + '/./../b', 'x', '../y/', '/'])))
    run.do(('AddDir', (b'D1',), b'SUB', 's' * rng.choice([3, 200, 251])))
    run.do(('AddFile', (b'D1', b'SUB'), b'G.;1', 'g' * rng.choice([1, 400]), 2049))


def h_blocks(run, rng):
    """enough continuation entries for 2-3 blocks; removals that free gaps; adds that reuse them"""
    n = rng.choice([12, 18, 26])
    ln = rng.choice([300, 420, 600])
    d = ()
    if rng.random() < 0.5:
        run.do(('AddDir', (), b'SUB', 'sub'))
        d = (b'SUB',)
    for i in range(n):
        if i % 5 == 4:
            run.do(('AddSymlink', d, b'S%03d.;1' % i, 'l%d' % i, '/'.join(['t' * 40] * rng.choice([5, 9]))))
        elif i % 7 == 6:
            run.do(('AddDir', d, b'D%03d' % i, 'd' * ln))
        else:
            run.do(('AddFile', d, b'F%03d.;1' % i, 'n' * (ln + i), rng.choice([0, 1, 2049])))
    for i in rng.sample(range(n), n // 3):
        if i % 5 == 4:
            run.do(('RmFile', d, b'S%03d.;1' % i))
        elif i % 7 == 6:
            run.do(('RmDir', d + (b'D%03d' % i,)))
        else:
            run.do(('RmFile', d, b'F%03d.;1' % i))
    for i in range(n, n + 4):
        run.do(('AddFile', d, b'F%03d.;1' % i, 'm' * rng.choice([ln - 50, ln, 250, 2100]), 7))


def h_targets(run, rng):
    """symlink targets of every shape: long components, many components, '.', '..', empty pieces"""
    tg = ['a' * 256, 'b' * 600 + '/' + 'c' * 251, '/'.join(['p'] * 120), '/' + '/'.join(['..'] * 40) + '/x',
          './/.//' + 'q' * 250, 'z' * 249 + '/.', '/'.join(['rr' * 30] * 12), '/x/', 'e' * 1200]
    rng.shuffle(tg)
    for i, t in enumerate(tg[:rng.choice([4, 6, 9])]):
        run.do(('AddSymlink', (), b'L%02d.;1' % i, 'link%d' % i + 'k' * rng.choice([0, 0, 180, 300]), t))
    run.do(('RmFile', (), b'L01.;1'))
    run.do(('AddSymlink', (), b'M.;1', 'm', tg[0][:700]))


def cases(seed, n):
    out = []
    for k in range(n):
        rng = random.Random(seed * 1000003 + k)
        version = rng.choice(['1.09', '1.09', '1.12', '1.12', '1.10'])
        sel = k % 10
        if sel == 0:
            label, spec = 'small', ('small',)
        elif sel == 1:
            label, spec = 'blocks', ('blocks',)
        elif sel == 2:
            label, spec = 'targets', ('targets',)
        elif sel == 3:
            tgt = rng.choice([2048, 2047, 2049])
            kind = rng.choice(['file', 'file', 'sym', 'dir', 'dirs'])
            label, spec = 'fill %d %s' % (tgt, kind), ('fill', tgt, kind)
        elif sel == 4:
            label, spec = 'deep', ('deep',)
        else:
            flavour = [0, 1, 2, 3, 1][sel - 5]
            nops = rng.choice([8, 15, 25])
            label, spec = 'random flavour %d, %d ops' % (flavour, nops), ('random', nops, flavour)
        out.append({'label': 'seed %d #%d: %s (%s)' % (seed, k, label, version), 'version': version, 'spec': spec,
                    'rngseed': seed * 1000003 + k})
    return out


def run_history(case):
    rng = random.Random(case['rngseed'] + 17)
    run = Runner(case['version'])
    spec = case['spec']
    if case['rngseed'] % 3 == 0 and spec[0] in ('random', 'blocks', 'small'):
        run.midwrite = random.Random(case['rngseed'] + 5)
    if spec[0] == 'small':
        h_small(run, rng)
    elif spec[0] == 'blocks':
        h_blocks(run, rng)
    elif spec[0] == 'targets':
        h_targets(run, rng)
    elif spec[0] == 'fill':
        art.fill_scenario(run, rng, spec[1], spec[2])
    elif spec[0] == 'deep':
        if rng.random() < 0.3:
            art.deep_scenario(run, rng)          # down to depth 7 and everything removed again
        p = ()
        for k in range(7):                       # directories down to depth 7, files and symlinks at depth 8
            run.do(('AddDir', p, b'E%d' % k, art.rr_text(rng, rng.choice([3, 180, 250, 400]))))
            if rng.random() < 0.4:
                run.do(('AddFile', p, b'F%d.;1' % k, art.rr_text(rng, rng.choice([5, 300])), rng.choice([0, 7, 4096])))
            p = p + (b'E%d' % k,)
        run.do(('AddFile', p, b'DEEP.;1', art.rr_text(rng, 240), 5000))
        run.do(('AddSymlink', p, b'LINK.;1', 'link', '../' * 60 + 'x'))
    else:
        art.random_history(run, rng, spec[1], spec[2])
    return run


# ---------------------------------------------------------------------------------------- own parser

def su_entries(area):
    """[(signature, entry bytes)] by the length bytes"""
    out, off = [], 0
    while off + 4 <= len(area):
        ln = area[off + 2]
        if ln < 4 or off + ln > len(area):
            break
        out.append((bytes(area[off:off + 2]), bytes(area[off:off + ln])))
        off += ln
    return out


def ce_pointers(img, area):
    """all (block, offset, length) reachable from the area"""
    res = []
    for sig, e in su_entries(area):
        if sig == b'CE':
            bl, of, ln = struct.unpack_from('<I', e, 4)[0], struct.unpack_from('<I', e, 12)[0], struct.unpack_from('<I', e, 20)[0]
            res.append((bl, of, ln))
            res += ce_pointers(img, img[bl * BLOCK + of: bl * BLOCK + of + ln])
    return res


def cut(img):
    """((root extent, length), date, [(extent, bytes)] directories, [(extent, bytes)] continuation blocks,
        per directory extent the list of (extent, length, is_dir) of its records after '.' and '..')"""
    root = img[16 * BLOCK + 156: 16 * BLOCK + 190]
    rext, rlen = struct.unpack_from('<I', root, 2)[0], struct.unpack_from('<I', root, 10)[0]
    date = root[18:25]
    queue, dirs, blocks, recs_of = [(rext, rlen)], [], set(), {}
    while queue:
        ext, ln = queue.pop(0)
        nblk = -(-ln // BLOCK)
        data = img[ext * BLOCK:(ext + nblk) * BLOCK]
        dirs.append((ext, data))
        off, k, lst = 0, 0, []
        while off < ln:
            l = data[off]
            if l == 0:
                off = (off // BLOCK + 1) * BLOCK
                continue
            rec = data[off:off + l]
            lfi = rec[32]
            su = rec[33 + lfi + (1 - lfi % 2):]
            for bl, _, _ in ce_pointers(img, su):
                blocks.add(bl)
            e, dl = struct.unpack_from('<I', rec, 2)[0], struct.unpack_from('<I', rec, 10)[0]
            if k >= 2:
                lst.append((e, dl, bool(rec[25] & 2)))
                if rec[25] & 2:
                    queue.append((e, dl))
            off += l
            k += 1
        recs_of[ext] = lst
    blks = [(b, img[b * BLOCK:(b + 1) * BLOCK]) for b in sorted(blocks)]
    return (rext, rlen), date, dirs, blks, recs_of


# ---------------------------------------------------------------------------------------- Coq terms

def coq_view(node, ext, ln, recs_of):
    """children of the shadow directory `node` whose extent is `ext`"""
    recs = recs_of[ext]
    assert len(recs) == len(node.kids), (len(recs), len(node.kids))
    out = []
    for k, (e, dl, isdir) in zip(node.kids, recs):
        links = 2 + sum(1 for c in k.kids if c.kind == 'd') if k.kind == 'd' else 1
        if k.kind == 'd':
            assert isdir
            out.append('VDir %s %s %d %d %d %d [%s]' % (zl(k.name), zl(k.rr), MODES['d'], links, e, dl,
                                                        coq_view(k, e, dl, recs_of)))
        else:
            out.append('VFile %s %s %d %d %s %d %d' % (zl(k.name), zl(k.rr), MODES[k.kind], links, zl(k.target), e, dl))
    return '; '.join(out)


def build(case):
    saved = time.time
    time.time = lambda: CLOCK
    try:
        run = run_history(case)
        out = io.BytesIO()
        run.iso.write_fp(out)
        run.iso.close()
    finally:
        time.time = saved
    return run, out.getvalue()


def render(case):
    run, img = build(case)
    (rext, rlen), date, dirs, blks, recs_of = cut(img)
    exp = '; '.join('(%d, [%s])' % (e, '; '.join('(%d, %s)' % (z, zl(lit)) for z, lit in rle(d))) for e, d in dirs + blks)
    er = b'IEEE_P1282' if case['version'] == '1.12' else b'RRIP_1991A'
    rlinks = 2 + sum(1 for c in run.root.kids if c.kind == 'd')
    view = 'mk_view 0 %s %d %d [%s]' % (zl(er), MODES['d'], rlinks, coq_view(run.root, rext, rlen, recs_of))
    ops = ';\n   '.join(art.coq_op(o) for o in run.ops)
    return '(* %s *)\n (%d, [%s],\n  %s, (%d, %d),\n  [%s],\n  %s)' % (case['label'], VERSIONS[case['version']], ops,
                                                                  zl(date), rext, rlen, exp, view)


HEADER = ('From Coq Require Import ZArith List Bool.\nImport ListNotations.\n'
          'From PV.Model Require Import RREntries AccountRR MasterRR.\nLocal Open Scope Z_scope.\n')


def main():
    seed, n = int(sys.argv[1]), int(sys.argv[2])
    outdir = sys.argv[3] if len(sys.argv) > 3 else '/var/tmp/masterrr/cases'
    shard = int(sys.argv[4]) if len(sys.argv) > 4 else 25
    os.makedirs(outdir, exist_ok=True)
    cs = cases(seed, n)
    k = 0
    for i in range(0, len(cs), shard):
        texts = [render(c) for c in cs[i:i + shard]]
        with open(os.path.join(outdir, 'S%d.v' % k), 'w') as f:
            f.write(HEADER)
            f.write('Definition cases : list mrr_case := [\n%s].\n' % ';\n'.join(texts))
            f.write('Eval vm_compute in bad_masterrr_cases 0 cases.\n')
        k += 1
    print(len(cs), 'cases', k, 'shards in', outdir)


if __name__ == '__main__':
    main()
