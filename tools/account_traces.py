#!/venv/bin/python
"""Differential test of coq/theories/Model/Account.v against the real pycdlib.

Runs edit histories (add_fp / add_directory / rm_file / rm_directory, valid and invalid) against
/repo/pycdlib and records after every operation

    accepted?, pvd.space_size, pvd.path_tbl_size, pvd.path_table_num_extents,
    sum of directory data_lengths, len(iso.inodes), end of the extents assigned by
    _reshuffle_extents (max over directories and inodes of extent + blocks)

and emits a Coq file with one Example per history stating that Account.run_probe / run_flags /
run_ends compute exactly these numbers (and that space = layout_end after every operation); the
Examples are closed by vm_compute.

usage:  PYTHONPATH=/repo /venv/bin/python /verif/tools/account_traces.py OUT.v SPEC [SPEC ...]
        SPEC = scenario | ptr_scenario | SEED:NOPS        (random history from SEED with NOPS operations)
check:  cd /verif/coq && coqc -q -Q theories PV -Q <dir of OUT.v> Tmp OUT.v
        (for theories/Proofs/AccountTraces.v:  coqc -q -Q theories PV theories/Proofs/AccountTraces.v)

theories/Proofs/AccountTraces.v was produced by
    account_traces.py /verif/coq/theories/Proofs/AccountTraces.v scenario ptr_scenario 1:25 2:30 4:25 7:30 9:30
"""
import collections
import io
import random
import sys

sys.path.insert(0, '/repo')
import pycdlib  # noqa: E402
from pycdlib import pycdlibexception  # noqa: E402

BLOCK = 2048


def cdiv(a, b):
    return -(-a // b)


def probe(iso):
    q = collections.deque([iso.pvd.root_directory_record()])
    tot = 0
    dirs = []
    while q:
        d = q.popleft()
        tot += d.data_length
        dirs.append(d)
        for c in d.children[2:]:
            if c.is_dir():
                q.append(c)
    iso._reshuffle_extents()  # what write_fp() / force_consistency() would do
    end = 16 + 1 + 1 + 1 + 2 * iso.pvd.path_table_num_extents
    for d in dirs:
        end = max(end, d.extent_location() + cdiv(d.data_length, BLOCK))
    for ino in iso.inodes:
        if ino.get_data_length() > 0:
            end = max(end, ino.extent_location() + cdiv(ino.get_data_length(), BLOCK))
    return ([iso.pvd.space_size, iso.pvd.path_tbl_size, iso.pvd.path_table_num_extents, tot,
             len(iso.inodes)], end)


def coq_bytes(b):
    return '[' + '; '.join(str(x) for x in b) + ']'


def coq_path(comps):
    return '[' + '; '.join(coq_bytes(c) for c in comps) + ']'


def iso_path(comps):
    return '/' + '/'.join(x.decode() for x in comps)


class Runner:
    """Executes operations against pycdlib and records what the Coq model must reproduce."""

    def __init__(self):
        self.iso = pycdlib.PyCdlib()
        self.iso.new(interchange_level=3)
        self.first, self.first_end = probe(self.iso)
        self.ops, self.probes, self.flags, self.ends = [], [], [], []

    def do(self, op):
        kind = op[0]
        if kind == 'AddFile':
            _, d, nm, ln = op
            self.ops.append('AddFile %s %s (%d)' % (coq_path(d), coq_bytes(nm), ln))

            def call():
                self.iso.add_fp(io.BytesIO(b''), ln, iso_path(d + (nm,)))
        elif kind == 'AddDir':
            _, d, nm = op
            self.ops.append('AddDir %s %s' % (coq_path(d), coq_bytes(nm)))

            def call():
                self.iso.add_directory(iso_path(d + (nm,)))
        elif kind == 'RmFile':
            _, d, nm = op
            self.ops.append('RmFile %s %s' % (coq_path(d), coq_bytes(nm)))

            def call():
                self.iso.rm_file(iso_path(d + (nm,)))
        else:
            _, p = op
            self.ops.append('RmDir %s' % coq_path(p))

            def call():
                self.iso.rm_directory(iso_path(p))
        try:
            call()
            ok = True
        except pycdlibexception.PyCdlibInvalidInput:
            ok = False
        pr, end = probe(self.iso)
        self.probes.append(pr)
        self.flags.append(ok)
        self.ends.append(end)
        return ok

    def emit(self, f, name, comment):
        f.write('(* %s *)\n' % comment)
        f.write('Definition %s_ops : list op :=\n  [%s].\n\n' % (name, ';\n   '.join(self.ops)))
        f.write('Example %s :\n  probe init = %s /\\ layout_end init = %d /\\\n'
                % (name, coq_bytes(self.first), self.first_end))
        f.write('  run_probe %s_ops =\n  [%s] /\\\n' % (name, ';\n   '.join(coq_bytes(p) for p in self.probes)))
        f.write('  run_flags %s_ops =\n  [%s] /\\\n' % (name, '; '.join('true' if b else 'false' for b in self.flags)))
        f.write('  map snd (run_ends %s_ops) =\n  %s /\\\n' % (name, coq_bytes(self.ends)))
        f.write('  forallb (fun p => fst p =? snd p) (run_ends %s_ops) = true.\n' % name)
        f.write('Proof. vm_compute. repeat split; reflexivity. Qed.\n\n')
        print('%s: %d ops, %d accepted, final %s end %d'
              % (name, len(self.ops), sum(self.flags), self.probes[-1], self.ends[-1]))


def gen_name(rng, isdir, long_names):
    alphabet = b'ABCDEFGHIJKLMNOPQRSTUVWXYZ0123456789_'
    r = rng.random()
    if long_names and r < 0.5:
        n = rng.choice([28, 60, 120, 200, 207, 208, 221, 222])
    else:
        n = rng.choice([1, 1, 2, 3, 8])
    base = bytes(rng.choice(alphabet) for _ in range(n))
    if isdir:
        return base
    r = rng.random()
    if r < 0.3:
        return base + b';1'
    if r < 0.6:
        return base + b'.' + bytes(rng.choice(alphabet) for _ in range(rng.choice([0, 1, 3]))) + b';1'
    if r < 0.65:
        return base + b';0'          # invalid version
    if r < 0.7:
        return base.lower()          # invalid characters
    return base


def random_history(run, seed, nops):
    rng = random.Random(seed)
    long_names = (seed % 3 == 1)      # long names make directories overflow a block quickly
    many_dirs = (seed % 3 == 2)       # many directories make the path table cross 4096 bytes
    dirs = [()]                       # known directories (tuples of components)
    files = []                        # known files (dir tuple, name)
    for _ in range(nops):
        r = rng.random()
        if many_dirs:
            kind = 'adddir' if r < 0.7 else ('rmdir' if r < 0.8 else ('addfile' if r < 0.9 else 'rmfile'))
        else:
            kind = 'addfile' if r < 0.45 else ('adddir' if r < 0.6 else ('rmfile' if r < 0.85 else 'rmdir'))
        bogus = rng.random() < 0.12
        if kind == 'addfile':
            d = rng.choice(dirs) if not bogus else rng.choice(dirs) + (b'NOPE',)
            nm = gen_name(rng, False, long_names)
            if files and rng.random() < 0.1:
                d, nm = rng.choice(files)         # duplicate
            ln = rng.choice([0, 1, 5, 2047, 2048, 2049, 4096, 100000, 4294965248])
            if ln > 10**6:
                ln = rng.choice([ln, 7, 3000])
            if run.do(('AddFile', d, nm, ln)):
                files.append((d, nm))
        elif kind == 'adddir':
            d = rng.choice(dirs) if not bogus else rng.choice(dirs) + (b'NOPE',)
            nm = gen_name(rng, True, long_names or many_dirs)
            if rng.random() < 0.08 and len(dirs) > 1:
                dd = rng.choice(dirs[1:])
                d, nm = dd[:-1], dd[-1]           # duplicate
            if run.do(('AddDir', d, nm)):
                dirs.append(d + (nm,))
        elif kind == 'rmfile':
            if files and not bogus:
                d, nm = rng.choice(files)
            elif len(dirs) > 1 and rng.random() < 0.5:
                dd = rng.choice(dirs[1:])
                d, nm = dd[:-1], dd[-1]           # a directory: refused
            else:
                d, nm = rng.choice(dirs), b'MISSING'
            if run.do(('RmFile', d, nm)):
                files.remove((d, nm))
        else:
            if rng.random() < 0.05:
                p = ()
            elif files and rng.random() < 0.1:
                d, nm = rng.choice(files)
                p = d + (nm,)                     # a file: refused
            elif bogus or len(dirs) == 1:
                p = rng.choice(dirs) + (b'MISSING',)
            else:
                p = rng.choice(dirs[1:])
            if run.do(('RmDir', p)):
                dirs.remove(p)


def scenario(run):
    """A fixed history: the root directory grows past one block (9th record of 234 bytes),
    a sub-tree is built, refused operations are interleaved, everything is removed again."""
    def long_name(i):
        return b'N' * 199 + bytes([65 + i]) + b';1'      # 202 bytes -> dr_len 236
    lens = [0, 1, 2047, 2048, 2049, 5000, 4096, 7, 100000, 3, 12345, 0]
    for i in range(12):
        run.do(('AddFile', (), long_name(i), lens[i]))
    run.do(('AddFile', (), long_name(3), 9))              # duplicate: refused
    run.do(('AddDir', (), b'D'))
    run.do(('AddDir', (b'D',), b'E'))
    run.do(('AddDir', (b'D', b'X'), b'E'))                # missing parent: refused
    run.do(('AddFile', (b'D', b'E'), b'X.TXT;1', 7))
    run.do(('AddFile', (b'D', b'E'), b'x.txt;1', 7))      # invalid characters: refused
    run.do(('AddFile', (b'D',), b'A' * 222, 1))           # dr_len 256: refused
    run.do(('AddFile', (b'D',), b'A' * 221, 1))           # dr_len 254: accepted
    run.do(('AddDir', (b'D',), b'B' * 208))               # > 207: refused
    run.do(('AddDir', (b'D',), b'B' * 207))
    run.do(('RmDir', (b'D',)))                            # not empty: refused
    run.do(('RmFile', (b'D',), b'E'))                     # a directory: refused
    run.do(('RmDir', ()))                                 # the root: refused
    for i in [0, 5, 11, 2, 8, 3, 7]:
        run.do(('RmFile', (), long_name(i)))
    run.do(('RmFile', (), long_name(3)))                  # already removed: refused
    run.do(('RmFile', (b'D', b'E'), b'X.TXT;1'))
    run.do(('RmDir', (b'D', b'E')))
    run.do(('RmFile', (b'D',), b'A' * 221))
    run.do(('RmDir', (b'D', b'B' * 207)))
    run.do(('RmDir', (b'D',)))
    for i in [1, 4, 6, 9, 10]:
        run.do(('RmFile', (), long_name(i)))


def ptr_scenario(run):
    """20 directories with 207-byte names: the path table (10 + 216 per directory) crosses 4096
    bytes at the 19th, so path_table_num_extents goes 2 -> 4 (4 more blocks) and back."""
    def dname(i):
        return b'D' * 206 + bytes([65 + i])
    for i in range(20):
        run.do(('AddDir', (), dname(i)))
    run.do(('AddFile', (dname(19),), b'F;1', 2049))
    run.do(('RmDir', (dname(19),)))                       # not empty: refused
    run.do(('RmFile', (dname(19),), b'F;1'))
    for i in [19, 0, 7, 18, 3]:
        run.do(('RmDir', (dname(i),)))


def main():
    out = sys.argv[1]
    specs = sys.argv[2:]
    with open(out, 'w') as f:
        f.write('(* GENERATED by /verif/tools/account_traces.py %s\n' % ' '.join(specs))
        f.write('   Each Example states what the real pycdlib (/repo) computed after every operation of an\n')
        f.write('   edit history: probe = [pvd.space_size; pvd.path_tbl_size; pvd.path_table_num_extents;\n')
        f.write('   sum of directory data_lengths; len(inodes)], accepted?, and the end of the extents\n')
        f.write('   assigned by _reshuffle_extents; Model/Account.v reproduces them by vm_compute. *)\n')
        f.write('From Coq Require Import ZArith List Bool.\nFrom PV.Model Require Import Account.\n')
        f.write('Import ListNotations.\nLocal Open Scope Z_scope.\n\n')
        for spec in specs:
            run = Runner()
            if spec == 'ptr_scenario':
                ptr_scenario(run)
                run.emit(f, 'ptr_scenario', 'fixed scenario: the path table crosses 4096 bytes and comes back')
            elif spec == 'scenario':
                scenario(run)
                run.emit(f, 'scenario', 'fixed scenario: root directory grows to 2 blocks and shrinks back')
            else:
                seed, nops = (int(x) for x in spec.split(':'))
                random_history(run, seed, nops)
                run.emit(f, 'trace_%d' % seed, 'random history, seed %d, %d operations' % (seed, nops))


if __name__ == '__main__':
    main()
