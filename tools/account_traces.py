#!/venv/bin/python
"""Differential test of coq/theories/Model/Account.v against the real pycdlib.

Generates a random edit history (add_fp / add_directory / rm_file / rm_directory, valid and
invalid), runs it against /repo/pycdlib, records after every operation

    accepted?, pvd.space_size, pvd.path_tbl_size, pvd.path_table_num_extents,
    sum of directory data_lengths, len(iso.inodes), end of the extents assigned by
    _reshuffle_extents (max over directories and inodes of extent + blocks)

and emits a Coq file whose only Example states that Account.run_probe / run_flags / run_ends
compute exactly these numbers; the Example is closed by vm_compute.

usage:  PYTHONPATH=/repo /venv/bin/python /verif/tools/account_traces.py SEED NOPS OUT.v [NAME]
check:  cd /verif/coq && coqc -q -Q theories PV OUT.v
"""
import collections
import io
import random
import sys

sys.path.insert(0, '/repo')
import pycdlib  # noqa: E402
from pycdlib import pycdlibexception  # noqa: E402

BLOCK = 2048


def cdiv(a, b):
    return -(-a // b)


def probe(iso):
    q = collections.deque([iso.pvd.root_directory_record()])
    tot = 0
    dirs = []
    while q:
        d = q.popleft()
        tot += d.data_length
        dirs.append(d)
        for c in d.children[2:]:
            if c.is_dir():
                q.append(c)
    iso._reshuffle_extents()  # what write_fp()/force_consistency() would do
    end = 16 + 1 + 1 + 1 + 2 * iso.pvd.path_table_num_extents
    for d in dirs:
        end = max(end, d.extent_location() + cdiv(d.data_length, BLOCK))
    for ino in iso.inodes:
        if ino.get_data_length() > 0:
            end = max(end, ino.extent_location() + cdiv(ino.get_data_length(), BLOCK))
    return ([iso.pvd.space_size, iso.pvd.path_tbl_size, iso.pvd.path_table_num_extents, tot,
             len(iso.inodes)], end)


def coq_bytes(b):
    return '[' + '; '.join(str(x) for x in b) + ']'


def coq_path(comps):
    return '[' + '; '.join(coq_bytes(c) for c in comps) + ']'


def gen_name(rng, isdir, long_names):
    alphabet = b'ABCDEFGHIJKLMNOPQRSTUVWXYZ0123456789_'
    r = rng.random()
    if long_names and r < 0.5:
        n = rng.choice([28, 60, 120, 200, 207, 208, 221, 222])
    else:
        n = rng.choice([1, 1, 2, 3, 8])
    base = bytes(rng.choice(alphabet) for _ in range(n))
    if isdir:
        return base
    r = rng.random()
    if r < 0.3:
        return base + b';1'
    if r < 0.6:
        return base + b'.' + bytes(rng.choice(alphabet) for _ in range(rng.choice([0, 1, 3]))) + b';1'
    if r < 0.65:
        return base + b';0'          # invalid version
    if r < 0.7:
        return base.lower()          # invalid characters
    return base


def main():
    seed = int(sys.argv[1])
    nops = int(sys.argv[2])
    out = sys.argv[3]
    name = sys.argv[4] if len(sys.argv) > 4 else 'trace_%d' % seed
    rng = random.Random(seed)
    long_names = (seed % 3 == 1)      # long names make directories overflow a block quickly
    many_dirs = (seed % 3 == 2)       # many directories make the path table cross 4096 bytes

    iso = pycdlib.PyCdlib()
    iso.new(interchange_level=3)
    first, first_end = probe(iso)

    dirs = [()]           # known directories (tuples of components)
    files = []            # known files (dir tuple, name)
    ops = []
    probes = []
    flags = []
    ends = []
    for _ in range(nops):
        r = rng.random()
        if many_dirs:
            kind = 'adddir' if r < 0.7 else ('rmdir' if r < 0.8 else ('addfile' if r < 0.9 else 'rmfile'))
        else:
            kind = 'addfile' if r < 0.45 else ('adddir' if r < 0.6 else ('rmfile' if r < 0.85 else 'rmdir'))
        bogus = rng.random() < 0.12
        if kind == 'addfile':
            d = rng.choice(dirs) if not bogus else rng.choice(dirs) + (b'NOPE',)
            nm = gen_name(rng, False, long_names)
            if files and rng.random() < 0.1:
                d, nm = rng.choice(files)         # duplicate
            ln = rng.choice([0, 1, 5, 2047, 2048, 2049, 4096, 100000, 4294965248])
            if ln > 10**6:
                ln = rng.choice([ln, 7, 3000])
            ops.append('AddFile %s %s %s' % (coq_path(d), coq_bytes(nm), '(%d)' % ln))
            path = '/' + '/'.join(x.decode() for x in d + (nm,))

            def call(path=path, ln=ln):
                iso.add_fp(io.BytesIO(b''), ln, path)
            key = ('f', d, nm)
        elif kind == 'adddir':
            d = rng.choice(dirs) if not bogus else rng.choice(dirs) + (b'NOPE',)
            nm = gen_name(rng, True, long_names or many_dirs)
            if rng.random() < 0.08 and len(dirs) > 1:
                dd = rng.choice(dirs[1:])
                d, nm = dd[:-1], dd[-1]           # duplicate
            ops.append('AddDir %s %s' % (coq_path(d), coq_bytes(nm)))
            path = '/' + '/'.join(x.decode() for x in d + (nm,))

            def call(path=path):
                iso.add_directory(path)
            key = ('d', d, nm)
        elif kind == 'rmfile':
            if files and not bogus:
                d, nm = rng.choice(files)
            elif len(dirs) > 1 and rng.random() < 0.5:
                dd = rng.choice(dirs[1:])
                d, nm = dd[:-1], dd[-1]           # a directory: refused
            else:
                d, nm = rng.choice(dirs), b'MISSING'
            ops.append('RmFile %s %s' % (coq_path(d), coq_bytes(nm)))
            path = '/' + '/'.join(x.decode() for x in d + (nm,))

            def call(path=path):
                iso.rm_file(path)
            key = ('rf', d, nm)
        else:
            if rng.random() < 0.05:
                p = ()
            elif files and rng.random() < 0.1:
                d, nm = rng.choice(files)
                p = d + (nm,)                     # a file: refused
            elif bogus or len(dirs) == 1:
                p = rng.choice(dirs) + (b'MISSING',)
            else:
                p = rng.choice(dirs[1:])
            ops.append('RmDir %s' % coq_path(p))
            path = '/' + '/'.join(x.decode() for x in p)

            def call(path=path):
                iso.rm_directory(path)
            key = ('rd', p[:-1], p[-1] if p else b'')
        try:
            call()
            ok = True
        except pycdlibexception.PyCdlibInvalidInput:
            ok = False
        if ok:
            if key[0] == 'f':
                files.append((key[1], key[2]))
            elif key[0] == 'd':
                dirs.append(key[1] + (key[2],))
            elif key[0] == 'rf':
                files.remove((key[1], key[2]))
            else:
                dirs.remove(key[1] + (key[2],))
        pr, end = probe(iso)
        probes.append(pr)
        flags.append(ok)
        ends.append(end)

    with open(out, 'w') as f:
        f.write('(* GENERATED by /verif/tools/account_traces.py %d %d: pycdlib vs Model/Account.v *)\n' % (seed, nops))
        f.write('From Coq Require Import ZArith List Bool.\nFrom PV.Model Require Import Account.\n')
        f.write('Import ListNotations.\nLocal Open Scope Z_scope.\n\n')
        f.write('Definition %s_ops : list op :=\n  [%s].\n\n' % (name, ';\n   '.join(ops)))
        f.write('(* fresh image: %s, end of layout %d *)\n' % (first, first_end))
        f.write('Example %s :\n  probe init = %s /\\ layout_end init = %d /\\\n' % (name, coq_bytes(first), first_end))
        f.write('  run_probe %s_ops =\n  [%s] /\\\n' % (name, ';\n   '.join(coq_bytes(p) for p in probes)))
        f.write('  run_flags %s_ops =\n  [%s] /\\\n' % (name, '; '.join('true' if b else 'false' for b in flags)))
        f.write('  map snd (run_ends %s_ops) =\n  %s.\n' % (name, coq_bytes(ends)))
        f.write('Proof. vm_compute. repeat split; reflexivity. Qed.\n')
    print('%s: %d ops, %d accepted, final %s end %d' % (name, nops, sum(flags), probes[-1], ends[-1]))


if __name__ == '__main__':
    main()
